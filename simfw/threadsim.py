"""threadsim — a seeded scheduler over real, parked threads (DESIGN §4.1).

Exactly one sim thread holds the baton.  A thread offers the scheduler a decision point when it
 (a) calls a sim primitive (Lock/RLock/Condition), (b) reaches a pre-emption point reported by
 sys.settrace inside a traced SQLAlchemy file, (c) calls sim.yield_point() explicitly, (d) ends.

Schedule models (which line boundaries are pre-emption points):
  G  "GIL build": function entry in traced files, and a line boundary whose previous line in the same
     frame contained a CALL*/back-edge/iteration opcode (CPython 3.12 eval-breaker checks).
  F  "free-threaded build": every line boundary in traced files; util.mini_gil is a sim RLock.

Schedules: {"mode": "seed", "seed": int, "policy": "rw"|"pct", "p": float, "depth": int, "horizon": int}
           {"mode": "explicit", "switches": [[decision_no, tid], ...]}   (replay / minimised schedules)
Every run records its switch list, so any seeded run can be replayed / minimised in explicit mode.
"""
import dis
import random
import sys
import threading as _th

from .ledger import VClock

_real_Lock = _th.Lock
_real_Thread = _th.Thread

_CALLISH = ("JUMP_BACKWARD", "JUMP_BACKWARD_NO_INTERRUPT", "FOR_ITER", "SEND", "YIELD_VALUE", "BEFORE_WITH", "RESUME")


class SimAbort(BaseException):
    """raised inside parked threads to unwind them when a run is aborted (deadlock / step cap)"""


class Deadlock(Exception):
    pass


_call_lines_cache = {}


def call_lines(code):
    r = _call_lines_cache.get(code)
    if r is None:
        r = set()
        cur = None
        for ins in dis.get_instructions(code):
            if ins.starts_line is not None:
                cur = ins.starts_line
            if ins.opname.startswith("CALL") or ins.opname in _CALLISH:
                r.add(cur)
        _call_lines_cache[code] = r
    return r


SIM = None  # the running simulation (one per process at a time)


class SimThread:
    def __init__(self, sim, fn, name, tid):
        self.sim = sim
        self.fn = fn
        self.name = name
        self.tid = tid
        self.state = "ready"        # ready | blocked | done
        self.baton = _real_Lock()
        self.baton.acquire()
        self.wake_at = None
        self.waiting_on = None
        self.timed_out = False
        self.exc = None
        self.result = None
        self.prio = 0
        self.t = _real_Thread(target=self._run, daemon=True, name="sim-%d" % tid)

    # ---- tracing
    def _gtrace(self, frame, event, arg):
        if event != "call":
            return None
        sim = self.sim
        code = frame.f_code
        tr = sim._traced.get(code)
        if tr is None:
            fn = code.co_filename
            tr = fn.endswith(sim.trace_suffixes) and code.co_name != "<module>"
            sim._traced[code] = tr
        if not tr:
            return None
        if sim.aborting:
            return None
        sim.preempt_point(("enter", code.co_name))
        if sim.model == "F":
            def ltrace_f(frame, event, arg):
                if event == "line" and not sim.aborting:
                    sim.preempt_point((code.co_name, frame.f_lineno))
                return ltrace_f
            return ltrace_f
        cl = call_lines(code)
        prev = [None]

        def ltrace_g(frame, event, arg):
            if event == "line":
                p = prev[0]
                prev[0] = frame.f_lineno
                if p is not None and p in cl and not sim.aborting:
                    sim.preempt_point((code.co_name, frame.f_lineno))
            return ltrace_g
        return ltrace_g

    def _run(self):
        self.baton.acquire()
        sim = self.sim
        try:
            if sim.aborting:
                raise SimAbort()
            if sim.trace_suffixes:
                sys.settrace(self._gtrace)
            self.result = self.fn()
        except SimAbort:
            pass
        except BaseException as e:   # noqa
            self.exc = e
        finally:
            sys.settrace(None)
            self.state = "done"
            sim._thread_done(self)


class Sim:
    def __init__(self, sched, trace_suffixes=(), model="G", max_steps=200000, clock=None):
        self.sched = sched
        self.mode = sched.get("mode", "seed")
        self.rng = random.Random(sched.get("seed", 0))
        self.policy = sched.get("policy", "rw")
        self.p = sched.get("p", 0.1)
        self.trace_suffixes = tuple(trace_suffixes)
        self.model = model
        self.max_steps = max_steps
        self.clock = clock or VClock()
        self.threads = []
        self.cur = None
        self.steps = 0            # pre-emption/decision points seen
        self.decisions = 0
        self.switch_log = []      # [decision_no, tid] for every change of running thread
        self.site_log = []        # (tid, site) at each voluntary switch (interleaving digest)
        self.aborting = False
        self.abort_reason = None
        self.deadlock = None
        self.monitor = None       # callable() at every decision point
        self.on_idle = None       # callable() just before virtual time advances
        self._traced = {}
        self.main_baton = _real_Lock()
        self.main_baton.acquire()
        self.explicit = {}
        if self.mode == "explicit":
            for k, tid in sched.get("switches", []):
                self.explicit[int(k)] = int(tid)
        self.pct_points = set()
        if self.policy == "pct" and self.mode == "seed":
            horizon = sched.get("horizon", 3000)
            for _ in range(sched.get("depth", 2)):
                self.pct_points.add(self.rng.randrange(1, max(2, horizon)))
        self.context_switches = 0
        self.time_advances = 0

    # ---- building
    def spawn(self, fn, name=None):
        t = SimThread(self, fn, name or "w%d" % len(self.threads), len(self.threads))
        if self.policy == "pct":
            t.prio = self.rng.random() + 1.0
        self.threads.append(t)
        return t

    def runnable(self):
        return [t for t in self.threads if t.state == "ready"]

    # ---- decision points
    def preempt_point(self, site=None):
        me = self.cur
        if me is None or self.aborting:
            return
        self.steps += 1
        if self.steps > self.max_steps:
            self._abort("step cap %d reached" % self.max_steps)
            raise SimAbort()
        if self.monitor is not None:
            self.monitor()
        nxt = self._choose(me, site)
        if nxt is not me:
            self.switch_log.append([self.decisions, nxt.tid])
            self._switch(me, nxt, site)

    yield_point = preempt_point

    def _choose(self, me, site):
        self.decisions += 1
        k = self.decisions
        if self.mode == "explicit":
            tid = self.explicit.get(k)
            if tid is not None and tid < len(self.threads) and self.threads[tid].state == "ready":
                return self.threads[tid]
            return me
        r = self.runnable()
        if len(r) <= 1:
            if self.policy == "pct" and k in self.pct_points:
                me.prio = -k
            return me
        if self.policy == "pct":
            if k in self.pct_points:
                me.prio = -k     # drop below everything drawn so far
            best = max(r, key=lambda t: (t.prio, -t.tid))
            return best
        if self.rng.random() < self.p:
            others = [t for t in r if t is not me]
            return others[self.rng.randrange(len(others))]
        return me

    def _pick_forced(self):
        t = self._pick_forced0()
        if t is not None:
            self.switch_log.append([self.decisions, t.tid])
        return t

    def _pick_forced0(self):
        """current thread cannot continue: choose another (or advance time)"""
        while True:
            r = self.runnable()
            if r:
                self.decisions += 1
                k = self.decisions
                if self.mode == "explicit":
                    tid = self.explicit.get(k)
                    if tid is not None and tid < len(self.threads) and self.threads[tid].state == "ready":
                        return self.threads[tid]
                    return r[0]
                if len(r) == 1:
                    return r[0]
                if self.policy == "pct":
                    return max(r, key=lambda t: (t.prio, -t.tid))
                return r[self.rng.randrange(len(r))]
            timed = [t for t in self.threads if t.state == "blocked" and t.wake_at is not None]
            if timed:
                if self.on_idle is not None:
                    self.on_idle()
                t = min(timed, key=lambda t: (t.wake_at, t.tid))
                if t.wake_at > self.clock.now:
                    self.clock.now = t.wake_at
                self.time_advances += 1
                t.timed_out = True
                t.wake_at = None
                t.state = "ready"
                if t.waiting_on is not None:
                    t.waiting_on._remove_waiter(t)
                continue
            if all(t.state == "done" for t in self.threads):
                return None
            self.deadlock = [(t.name, t.state, repr(t.waiting_on)) for t in self.threads]
            self._abort("deadlock")
            return None

    def _switch(self, me, nxt, site=None):
        self.context_switches += 1
        if site is not None and len(self.site_log) < 400:
            self.site_log.append((me.tid if me else -1, str(site)))
        self.cur = nxt
        if nxt is not None:
            nxt.baton.release()
        else:
            self.main_baton.release()
        if me is not None and me.state != "done":
            me.baton.acquire()
            if self.aborting:
                raise SimAbort()

    def block(self, me, on, timeout=None):
        """park the current thread until woken or until `timeout` virtual seconds elapse"""
        me.state = "blocked"
        me.waiting_on = on
        me.timed_out = False
        me.wake_at = (self.clock.now + timeout) if timeout is not None else None
        nxt = self._pick_forced()
        if self.aborting:
            raise SimAbort()
        if nxt is me:           # woke itself through a timer
            me.waiting_on = None
            return not me.timed_out
        self._switch(me, nxt)
        me.waiting_on = None
        return not me.timed_out

    def wake(self, t):
        if t.state == "blocked":
            t.state = "ready"
            t.wake_at = None
            t.timed_out = False

    def _thread_done(self, t):
        if self.aborting:
            self._resume_next_abort(t)
            return
        nxt = self._pick_forced()
        if self.aborting:
            self._resume_next_abort(t)
            return
        self.context_switches += 1
        self.cur = nxt
        if nxt is not None:
            nxt.baton.release()
        else:
            self.main_baton.release()

    # ---- abort: unwind every parked thread one at a time
    def _abort(self, reason):
        if not self.aborting:
            self.aborting = True
            self.abort_reason = reason

    def _resume_next_abort(self, finished):
        for t in self.threads:
            if t.state != "done" and t is not finished:
                self.cur = t
                t.baton.release()
                return
        self.cur = None
        self.main_baton.release()

    # ---- running
    def run(self):
        global SIM
        SIM = self
        try:
            for t in self.threads:
                t.t.start()
            first = self._pick_forced()
            self.cur = first
            if first is None:
                return
            first.baton.release()
            self.main_baton.acquire()
            for t in self.threads:
                t.t.join(30)
                if t.t.is_alive():
                    raise RuntimeError("sim thread %s did not finish (harness wedge)" % t.name)
        finally:
            SIM = None

    def interleaving_digest(self):
        import hashlib
        return hashlib.blake2b(repr(self.site_log).encode(), digest_size=8).hexdigest()


# ----------------------------------------------------------------- sim primitives

class _LockBase:
    reentrant = False

    def __init__(self):
        self.owner = None
        self.count = 0
        self.waiters = []

    def _remove_waiter(self, t):
        if t in self.waiters:
            self.waiters.remove(t)

    def acquire(self, blocking=True, timeout=-1):
        sim = SIM
        if sim is None or sim.cur is None or sim.aborting:
            self.count += 1
            return True
        me = sim.cur
        sim.preempt_point(("acquire", type(self).__name__))
        while True:
            if self.owner is None:
                self.owner = me
                self.count = 1
                return True
            if self.reentrant and self.owner is me:
                self.count += 1
                return True
            if not blocking:
                return False
            self.waiters.append(me)
            ok = sim.block(me, self, None if timeout is None or timeout < 0 else timeout)
            if sim.aborting:
                raise SimAbort()
            if not ok:
                return False

    def release(self):
        sim = SIM
        if sim is None or sim.cur is None or sim.aborting:
            self.count -= 1
            if self.count <= 0:
                self.owner = None
                self.count = 0
            return
        self.count -= 1
        if self.count == 0:
            self.owner = None
            ws, self.waiters = self.waiters, []
            for w in ws:
                sim.wake(w)
        sim.preempt_point(("release", type(self).__name__))

    def __enter__(self):
        self.acquire()
        return True

    def __exit__(self, *a):
        self.release()

    def locked(self):
        return self.owner is not None

    def __repr__(self):
        return "<%s owner=%s>" % (type(self).__name__, self.owner.name if self.owner else None)


class SimLock(_LockBase):
    pass


class SimRLock(_LockBase):
    reentrant = True

    def _is_owned(self):
        return SIM is not None and self.owner is SIM.cur


class SimCondition:
    def __init__(self, lock=None):
        self.lock = lock if lock is not None else SimRLock()
        self.cwaiters = []

    def __enter__(self):
        return self.lock.__enter__()

    def __exit__(self, *a):
        return self.lock.__exit__(*a)

    def acquire(self, *a, **k):
        return self.lock.acquire(*a, **k)

    def release(self):
        return self.lock.release()

    def _remove_waiter(self, t):
        if t in self.cwaiters:
            self.cwaiters.remove(t)

    def wait(self, timeout=None):
        sim = SIM
        if sim is None or sim.cur is None or sim.aborting:
            raise SimAbort()
        me = sim.cur
        lk = self.lock
        saved = lk.count
        # full release
        lk.count = 0
        lk.owner = None
        ws, lk.waiters = lk.waiters, []
        for w in ws:
            sim.wake(w)
        self.cwaiters.append(me)
        notified = sim.block(me, self, timeout)
        if sim.aborting:
            raise SimAbort()
        # re-acquire
        while lk.owner is not None and lk.owner is not me:
            lk.waiters.append(me)
            sim.block(me, lk, None)
            if sim.aborting:
                raise SimAbort()
        lk.owner = me
        lk.count = saved
        return notified

    def notify(self, n=1):
        sim = SIM
        for _ in range(n):
            if self.cwaiters:
                w = self.cwaiters.pop(0)
                if sim is not None:
                    sim.wake(w)

    def notify_all(self):
        self.notify(len(self.cwaiters))

    def __repr__(self):
        return "<SimCondition waiters=%d>" % len(self.cwaiters)


class ThreadingShim:
    """replacement for the ``threading`` module attribute of traced SQLAlchemy modules"""
    Lock = SimLock
    RLock = SimRLock
    Condition = SimCondition
    local = _th.local

    def get_ident(self):
        return SIM.cur.tid if SIM is not None and SIM.cur is not None else _th.get_ident()

    def current_thread(self):
        return _th.current_thread()

    def __getattr__(self, k):
        return getattr(_th, k)


SHIM = ThreadingShim()


class Patch:
    """patch module attributes for the duration of a run; restore afterwards"""

    def __init__(self):
        self.saved = []

    def set(self, obj, attr, value):
        self.saved.append((obj, attr, getattr(obj, attr)))
        setattr(obj, attr, value)

    def restore(self):
        for obj, attr, old in reversed(self.saved):
            setattr(obj, attr, old)
        self.saved = []


_REAL_LOCK_TYPE = type(_th.Lock())
_REAL_RLOCK_TYPE = type(_th.RLock())


def swap_real_locks(patch, *modules):
    """Module-level locks created at import time are real; a sim thread parked while holding one would wedge
    the baton scheme.  Replace them by sim locks for the duration of a run (DESIGN §4.1 hazards)."""
    n = 0
    for mod in modules:
        for name, val in list(vars(mod).items()):
            if isinstance(val, _REAL_RLOCK_TYPE):
                patch.set(mod, name, SimRLock())
                n += 1
            elif isinstance(val, _REAL_LOCK_TYPE):
                patch.set(mod, name, SimLock())
                n += 1
    return n
