"""loopsim — virtual-time asyncio event loop, step-counting tasks with a cancellation injector, and a deterministic
stand-in for aiosqlite that is handed to SQLAlchemy's *real* aiosqlite adapter via create_async_engine(async_creator=...).

* SimLoop(asyncio.BaseEventLoop): time() is virtual; the "selector" advances the clock to the next timer; no sockets,
  no threads.  asyncio's FIFO ready queue is kept, so every execution is one a real loop could produce; interleavings come
  from the virtual completion times of driver I/O (seeded) and from injected cancellations / timeouts.
* SimTask(asyncio.tasks._PyTask): counts resumptions; after the chosen step the task is suspended at its i-th await and the
  injector calls Task.cancel().
* FakeAioConn / FakeAioCursor: same surface the adapter uses (cursor(), execute, fetch*, commit, rollback, close, stop,
  create_function, _tx, _conn, _connection, isolation_level); every call awaits a seeded virtual delay, then calls sqlite3
  synchronously.  Third-party aiosqlite itself does not run (its worker thread cannot be scheduled).
"""
import asyncio
import asyncio.tasks as _tasks
import sqlite3


class SimDeadlock(RuntimeError):
    pass


class _Sel:
    def __init__(self, loop):
        self.loop = loop

    def select(self, timeout):
        if timeout is None:
            raise SimDeadlock("sim deadlock: nothing scheduled and nothing ready")
        if timeout > 0:
            self.loop._vtime += timeout
            self.loop.time_advances += 1
        return []

    def close(self):
        pass


class SimLoop(asyncio.BaseEventLoop):
    def __init__(self):
        super().__init__()
        self._vtime = 0.0
        self._selector = _Sel(self)
        self._clock_resolution = 1e-9
        self.time_advances = 0
        self.injector = None
        self.task_seq = 0

    def time(self):
        return self._vtime

    def _process_events(self, evs):
        pass

    def _write_to_self(self):
        pass


class SimTask(_tasks._PyTask):
    def __init__(self, coro, *, loop=None, name=None, context=None, eager_start=False):
        loop.task_seq += 1
        super().__init__(coro, loop=loop, name=name or "t%d" % loop.task_seq, context=context)
        self.sim_steps = 0

    def _Task__step(self, exc=None):
        super()._Task__step(exc)
        self.sim_steps += 1
        inj = self._loop.injector
        if inj is not None and not self.done():
            inj(self)


def new_loop():
    loop = SimLoop()
    loop.set_task_factory(lambda lp, coro, **kw: SimTask(coro, loop=lp, **kw))
    asyncio.set_event_loop(loop)
    return loop


class DriverSim:
    """seeded virtual I/O latencies + registry of driver connections"""

    def __init__(self, rng, delays=(0, 0.001, 0.01)):
        self.rng = rng
        self.delays = delays
        self.io_count = 0
        self.conns = []
        self.log = []

    def delay(self):
        return self.delays[self.rng.randrange(len(self.delays))]


class FakeAioCursor:
    def __init__(self, conn):
        self.conn = conn
        self._c = conn._conn.cursor()
        conn._cursors.append(self._c)
        self.arraysize = 1
        self.closed = False

    async def __aenter__(self):
        return self

    async def __aexit__(self, *a):
        await self.close()

    @property
    def description(self):
        return self._c.description

    @property
    def rowcount(self):
        return self._c.rowcount

    @property
    def lastrowid(self):
        return self._c.lastrowid

    async def execute(self, sql, params=()):
        await self.conn.io("execute")
        self.conn.sim.log.append((self.conn.id, sql))
        self._c.execute(sql, params)
        return self

    async def executemany(self, sql, params):
        await self.conn.io("executemany")
        self._c.executemany(sql, params)
        return self

    async def fetchall(self):
        await self.conn.io("fetchall")
        return self._c.fetchall()

    async def fetchone(self):
        await self.conn.io("fetchone")
        return self._c.fetchone()

    async def fetchmany(self, size=None):
        await self.conn.io("fetchmany")
        return self._c.fetchmany(size or self.arraysize)

    async def close(self):
        await self.conn.io("cursor_close")
        self.closed = True
        self._c.close()


class FakeAioConn:
    def __init__(self, sim, path, **kw):
        self.sim = sim
        self.id = len(sim.conns)
        sim.conns.append(self)
        self._conn = sqlite3.connect(path, **kw)
        self._connection = self._conn
        self._cursors = []
        self.closed = False
        outer = self

        class TX:
            def put_nowait(s, item):
                fut, fn = item

                def run():
                    if fut.done():
                        return
                    try:
                        fut.set_result(fn())
                    except Exception as e:     # noqa
                        fut.set_exception(e)
                asyncio.get_event_loop().call_later(outer.sim.delay(), run)
        self._tx = TX()

    async def io(self, what):
        self.sim.io_count += 1
        if self.closed:
            raise ValueError("no active connection")
        await asyncio.sleep(self.sim.delay())
        if self.closed:
            raise ValueError("no active connection")

    @property
    def isolation_level(self):
        return self._conn.isolation_level

    @property
    def in_transaction(self):
        return self._conn.in_transaction

    def cursor(self):
        return FakeAioCursor(self)

    async def execute(self, sql, params=()):
        c = FakeAioCursor(self)
        return await c.execute(sql, params)

    async def commit(self):
        await self.io("commit")
        self._conn.commit()

    async def rollback(self):
        await self.io("rollback")
        self._conn.rollback()

    async def close(self):
        if self.closed:
            return
        await asyncio.sleep(self.sim.delay())
        self.stop()

    def stop(self):
        if not self.closed:
            self.closed = True
            # finalise every statement first: sqlite3_close_v2() would otherwise leave a zombie handle (and its locks) behind
            # for as long as some cancelled coroutine frame still references a cursor
            for c in self._cursors:
                try:
                    c.close()
                except Exception:
                    pass
            del self._cursors[:]
            try:
                self._conn.close()
            except Exception:
                pass
            self._connection = None

    async def create_function(self, *a, **kw):
        await self.io("create_function")
        self._conn.create_function(*a, **kw)
