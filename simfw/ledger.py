"""Ledger DBAPI: connections are counters with open/closed/dead flags; every DBAPI call and
every instrumented listener call is a numbered *point* where a fault plan can fire.

Faults are addressed by (point kind, ordinal of that kind) so that a plan survives the
removal of unrelated operations during minimisation.
"""


class LError(Exception):
    """dbapi.Error of the ledger driver (ordinary, non-disconnect)."""


class LDisconnect(LError):
    """classified as a disconnect by the ledger dialect"""


class LExit(BaseException):
    """KeyboardInterrupt-like; never part of a verdict"""


class VClock:
    """One virtual clock per run; every read advances 1us so events never tie (DESIGN 4.4)."""

    def __init__(self, start=1000.0):
        self.now = start
        self.reads = 0

    def time(self):
        self.reads += 1
        self.now += 1e-6
        return self.now

    def peek(self):
        return self.now

    def jump(self, dt):
        self.now += dt


class TimeShim:
    """stands in for the ``time`` module inside sqlalchemy.pool.base"""

    def __init__(self, clock):
        self._clock = clock

    def time(self):
        return self._clock.time()

    def __getattr__(self, k):
        import time as _t
        return getattr(_t, k)


class Ledger:
    def __init__(self, clock, faults=()):
        self.clock = clock
        self.conns = []
        self.calls = []          # (kind, ordinal, conn_id)
        self.kind_count = {}
        self.plan = {}
        for f in faults:
            self.plan[(f[0], int(f[1]))] = f[2]
        self.fired = []          # (kind, ordinal, fault, conn_id, t)
        self.on_point = None     # scheduler hook
        self.enabled = True

    def point(self, kind, conn=None):
        if self.on_point is not None:
            self.on_point(kind, conn)
        n = self.kind_count.get(kind, 0) + 1
        self.kind_count[kind] = n
        cid = conn.id if conn is not None else -1
        self.calls.append((kind, n, cid))
        if not self.enabled:
            return None
        f = self.plan.get((kind, n))
        if f is None:
            return None
        self.fired.append((kind, n, f, cid, self.clock.peek()))
        return f

    def raise_for(self, f, kind, conn=None):
        if f == "error":
            raise LError("injected error at %s" % kind)
        if f == "disc":
            if conn is not None:
                conn.dead = True
            raise LDisconnect("injected disconnect at %s" % kind)
        if f == "base":
            raise LExit(kind)


class LCursor:
    def __init__(self, conn):
        self.conn = conn
        self.description = None
        self.rowcount = -1
        self.arraysize = 1
        self._rows = []
        self.closed = False

    def execute(self, sql, params=()):
        c = self.conn
        f = c.ledger.point("execute", c)
        c._check_usable("execute")
        c.ledger.raise_for(f, "execute", c)
        c.in_txn = True
        c.executed.append(sql)
        self.description = [("x", None, None, None, None, None, None)]
        self._rows = [(1,)]
        return self

    def executemany(self, sql, seq):
        return self.execute(sql)

    def fetchone(self):
        return self._rows.pop(0) if self._rows else None

    def fetchmany(self, size=None):
        r, self._rows = self._rows, []
        return r

    def fetchall(self):
        r, self._rows = self._rows, []
        return r

    def close(self):
        self.closed = True

    def setinputsizes(self, *a):
        pass

    def setoutputsize(self, *a):
        pass


class LConn:
    def __init__(self, ledger):
        self.ledger = ledger
        self.id = len(ledger.conns)
        ledger.conns.append(self)
        self.created = ledger.clock.peek()
        self.closed = False          # close() completed
        self.close_called = 0        # close() attempted (even if it raised)
        self.dead = False            # server side gone: every call raises LDisconnect
        self.in_txn = False
        self.reset_failed = False
        self.executed = []

    def _check_usable(self, what):
        if self.closed:
            raise LDisconnect("%s on closed connection %d" % (what, self.id))
        if self.dead:
            raise LDisconnect("%s on dead connection %d" % (what, self.id))

    def cursor(self):
        return LCursor(self)

    def rollback(self):
        f = self.ledger.point("rollback", self)
        try:
            self._check_usable("rollback")
            self.ledger.raise_for(f, "rollback", self)
        except BaseException:
            self.reset_failed = True
            raise
        self.in_txn = False

    def commit(self):
        f = self.ledger.point("commit", self)
        try:
            self._check_usable("commit")
            self.ledger.raise_for(f, "commit", self)
        except BaseException:
            self.reset_failed = True
            raise
        self.in_txn = False

    def close(self):
        self.close_called += 1
        f = self.ledger.point("close", self)
        self.ledger.raise_for(f, "close", self)
        self.closed = True

    def __repr__(self):
        return "<LConn %d>" % self.id


class LModule:
    Error = LError
    paramstyle = "qmark"
    apilevel = "2.0"
    threadsafety = 1
    sqlite_version_info = (3, 40, 0)


def make_dialect(ledger):
    from sqlalchemy.engine import default

    class LedgerDialect(default.DefaultDialect):
        name = "ledger"
        driver = "ledger"
        supports_statement_cache = True

        def is_disconnect(self, e, connection, cursor):
            return isinstance(e, LDisconnect)

        def do_ping(self, dbapi_connection):
            f = ledger.point("ping", dbapi_connection)
            if f == "false":
                return False
            dbapi_connection._check_usable("ping")
            ledger.raise_for(f, "ping", dbapi_connection)
            return True

    d = LedgerDialect()
    d.dbapi = LModule
    d.loaded_dbapi = LModule
    return d


def make_creator(ledger):
    def creator():
        f = ledger.point("connect", None)
        ledger.raise_for(f, "connect", None)
        return LConn(ledger)

    return creator


# ----------------------------------------------------------------- sequential sync shim
class SeqDeadlock(Exception):
    """a single-threaded history blocked forever (no timeout) - harness-level signal"""


class _SeqLock:
    def __init__(self):
        self.count = 0

    def acquire(self, blocking=True, timeout=-1):
        self.count += 1
        return True

    def release(self):
        self.count -= 1

    def __enter__(self):
        self.count += 1
        return True

    def __exit__(self, *a):
        self.count -= 1

    def locked(self):
        return self.count > 0

    def _is_owned(self):
        return self.count > 0


class SeqThreading:
    """``threading`` stand-in for single-caller histories: locks are counters and a
    Condition.wait(timeout) *is* the timeout (virtual clock jumps), because no other
    caller exists that could notify.  Never sleeps for real."""

    def __init__(self, clock):
        import threading as _th
        self._clock = clock
        self.local = _th.local
        self.get_ident = _th.get_ident
        self.current_thread = _th.current_thread
        clock_ref = clock

        class Condition:
            def __init__(self, lock=None):
                self._lock = lock if lock is not None else _SeqLock()

            def __enter__(self):
                return self._lock.__enter__()

            def __exit__(self, *a):
                return self._lock.__exit__(*a)

            def acquire(self, *a, **k):
                return self._lock.acquire(*a, **k)

            def release(self):
                return self._lock.release()

            def wait(self, timeout=None):
                if timeout is None:
                    raise SeqDeadlock("Condition.wait() without timeout in a single-caller history")
                clock_ref.jump(max(0.0, timeout))
                return False

            def notify(self, n=1):
                pass

            def notify_all(self):
                pass

        self.Condition = Condition
        self.Lock = _SeqLock
        self.RLock = _SeqLock

    def __getattr__(self, k):
        import threading as _th
        return getattr(_th, k)
