"""cachesim — shared machinery for the compiled-cache properties (C02, C16, C17).

A *subject* engine (shared compiled cache of a seeded, small capacity, so eviction and re-population happen inside short
histories) and a *reference* engine (query_cache_size=0) run on twin SQLite databases; every operation of a history is applied
to both.  For each execution the cursor-level SQL text and DBAPI parameters (captured with before_cursor_execute) and the rows
are compared.  Statements are generated from *families* whose consecutive draws are structurally similar but not equal
(same family, one attribute changed) - that is where a wrong cache hit lives.
"""
import gc

_m = {}


def setup():
    if _m:
        return _m
    from sqlalchemy import (MetaData, Table, Column, Integer, String, ForeignKey, create_engine, event, select, insert, update,
                            delete, bindparam, literal, func, case, cast, exists, text, union_all, and_, or_, exc, literal_column,
                            type_coerce, null, true, lambda_stmt)
    from sqlalchemy.orm import Session, declarative_base, relationship, selectinload, joinedload, defer, with_loader_criteria
    from sqlalchemy.pool import StaticPool
    md = MetaData()
    users = Table("users", md, Column("id", Integer, primary_key=True), Column("name", String), Column("age", Integer))
    addr = Table("addr", md, Column("id", Integer, primary_key=True), Column("user_id", ForeignKey("users.id")), Column("email", String))
    items = Table("items", md, Column("id", Integer, primary_key=True), Column("owner", String), Column("qty", Integer))
    Base = declarative_base(metadata=md)

    class User(Base):
        __table__ = users
        addresses = relationship("Address", order_by=addr.c.id)

    class Address(Base):
        __table__ = addr
        user = relationship("User", overlaps="addresses")

    _m.update(locals())
    return _m


DATA_USERS = [(1, "ann", 30), (2, "bob", 25), (3, "cat", 41), (4, "dan", None), (5, None, 19), (6, "ann", 52)]
DATA_ADDR = [(1, 1, "a@x"), (2, 1, "a@y"), (3, 2, "b@x"), (4, 3, "c@z"), (5, 6, "a2@x")]
DATA_ITEMS = [(1, "alice", 3), (2, "alice", 7), (3, "alice", 9), (4, "bob", 2), (5, "bob", 8), (6, "bob", 11), (7, "carl", 5)]


class Pair:
    """subject + reference engines with statement capture"""

    def __init__(self, cache_size, module_subject=None):
        m = setup()
        kw = {"poolclass": m["StaticPool"], "connect_args": {"check_same_thread": False}}
        if module_subject is not None:
            kw["module"] = module_subject
        self.subject = m["create_engine"]("sqlite://", query_cache_size=cache_size, **kw)
        kw.pop("module", None)
        self.reference = m["create_engine"]("sqlite://", query_cache_size=0, **kw)
        self.cap = {"s": [], "r": []}
        for key, eng in (("s", self.subject), ("r", self.reference)):
            @m["event"].listens_for(eng, "before_cursor_execute")
            def cap(conn, cursor, statement, parameters, context, executemany, key=key):
                self.cap[key].append((statement, _norm_params(parameters)))
            with eng.begin() as c:
                m["md"].create_all(c)
                c.execute(m["users"].insert(), [dict(id=a, name=b, age=cc) for a, b, cc in DATA_USERS])
                c.execute(m["addr"].insert(), [dict(id=a, user_id=b, email=cc) for a, b, cc in DATA_ADDR])
                c.execute(m["items"].insert(), [dict(id=a, owner=b, qty=cc) for a, b, cc in DATA_ITEMS])
            del self.cap[key][:]

    def dispose(self):
        self.subject.dispose()
        self.reference.dispose()


def _norm_params(p):
    if isinstance(p, dict):
        return tuple(sorted((k, repr(v)) for k, v in p.items()))
    if isinstance(p, (list, tuple)):
        if p and isinstance(p[0], (list, tuple, dict)):
            return tuple(_norm_params(x) for x in p)
        return tuple(repr(v) for v in p)
    return repr(p)


def norm_rows(rows):
    return [tuple(repr(v) for v in r) for r in rows]


# ------------------------------------------------------------------------------------------------ statement families (C02)
# each family: f(rng) -> dict(kind="core"|"orm"|"dml", build=callable returning (stmt, params, exec_opts), desc=str)
# `build` is called once per engine so that no statement object is shared between the two engines.

def families():
    m = setup()
    users, addr, items = m["users"], m["addr"], m["items"]
    select, bindparam, literal, func, case, cast, exists = m["select"], m["bindparam"], m["literal"], m["func"], m["case"], m["cast"], m["exists"]
    Integer, String = m["Integer"], m["String"]
    fams = {}

    def fam(name):
        def deco(fn):
            fams[name] = fn
            return fn
        return deco

    NAMES = ["ann", "bob", "cat", "zed", None]
    OWNERS = ["alice", "bob", "carl", "nobody"]

    @fam("eq_literal")
    def f1(rng):
        v = rng.choice(NAMES)
        col = rng.choice(["name", "age"])
        if col == "age":
            v = rng.choice([19, 25, 30, 41, None])
        return dict(kind="core", desc="users.%s == %r" % (col, v),
                    build=lambda: (select(users).where(users.c[col] == v).order_by(users.c.id), None, None))

    @fam("limit_offset")
    def f2(rng):
        lim, off, a = rng.choice([1, 2, 3, 10]), rng.choice([0, 1, 2]), rng.choice([18, 26, 40])
        simple = rng.random() < 0.5
        def build():
            s = select(users.c.id, users.c.name).where(users.c.age > a).order_by(users.c.id).limit(lim)
            if not simple:
                s = s.offset(off)
            return s, None, None
        return dict(kind="core", desc="age>%s limit %s offset %s" % (a, lim, None if simple else off), build=build)

    @fam("in_list")
    def f3(rng):
        n = rng.choice([0, 1, 2, 3, 5])
        vals = [rng.choice([1, 2, 3, 4, 5, 6, 99]) for _ in range(n)]
        neg = rng.random() < 0.3
        def build():
            c = users.c.id.not_in(vals) if neg else users.c.id.in_(vals)
            return select(users.c.id, users.c.name).where(c).order_by(users.c.id), None, None
        return dict(kind="core", desc="id %sin %s" % ("not " if neg else "", vals), build=build)

    @fam("in_bindparam_expanding")
    def f3b(rng):
        n = rng.choice([0, 1, 2, 4])
        vals = [rng.choice([1, 2, 3, 4, 5, 6, 99]) for _ in range(n)]
        return dict(kind="core", desc="id in expanding %s" % vals,
                    build=lambda: (select(users.c.id).where(users.c.id.in_(bindparam("ids", expanding=True))).order_by(users.c.id),
                                   {"ids": vals}, None))

    @fam("join")
    def f4(rng):
        v = rng.choice(["a@x", "b@x", "c@z", "none"])
        outer = rng.random() < 0.4
        def build():
            j = users.outerjoin(addr) if outer else users.join(addr)
            return select(users.c.name, addr.c.email).select_from(j).where(addr.c.email != v).order_by(users.c.id, addr.c.id), None, None
        return dict(kind="core", desc="join outer=%s email!=%r" % (outer, v), build=build)

    @fam("scalar_subquery")
    def f5(rng):
        v = rng.choice(OWNERS)
        q = rng.choice([1, 5, 8])
        def build():
            sub = select(func.count(items.c.id)).where(items.c.owner == v).where(items.c.qty >= q).scalar_subquery()
            return select(users.c.id, sub.label("n")).order_by(users.c.id).limit(2), None, None
        return dict(kind="core", desc="scalar subq owner=%r qty>=%s" % (v, q), build=build)

    @fam("exists_cte_union")
    def f6(rng):
        v = rng.choice([1, 2, 3, 6])
        shape = rng.choice(["exists", "cte", "union"])
        def build():
            if shape == "exists":
                return select(users.c.id).where(exists().where(addr.c.user_id == users.c.id).where(addr.c.id > v)).order_by(users.c.id), None, None
            if shape == "cte":
                c = select(addr.c.user_id.label("uid")).where(addr.c.id >= v).cte("c")
                return select(users.c.name).join(c, c.c.uid == users.c.id).order_by(users.c.id), None, None
            a = select(users.c.id).where(users.c.id < v)
            b = select(users.c.id).where(users.c.id > 7 - v)
            return m["union_all"](a, b).order_by("id"), None, None
        return dict(kind="core", desc="%s v=%s" % (shape, v), build=build)

    @fam("bindparam_extra_keys")
    def f7(rng):
        owner = rng.choice(OWNERS)
        mq = rng.choice([1, 5, 8])
        extra = rng.choice([0, 1, 2])
        def build():
            s = select(items.c.id).where(items.c.owner == owner).where(items.c.qty >= bindparam("min_qty")).order_by(items.c.id)
            p = {"min_qty": mq}
            for i in range(extra):
                p["unused%d" % i] = i        # keys the statement never uses (legal for SELECT)
            return s, p, None
        return dict(kind="core", desc="owner=%r min_qty=%s extra_keys=%d" % (owner, mq, extra), build=build)

    @fam("stmt_params")
    def f7b(rng):
        # the three ways a named bind gets its value: the bindparam's own default, Executable.params() on the statement, execute-time
        # parameters; all three share one cache key
        how = rng.choice(["default", "stmt", "stmt", "exec", "callable"])
        mq = rng.choice([1, 5, 8, 10])
        owner = rng.choice(OWNERS)
        def build():
            # (a bind whose value comes from a callable evaluated at execution time shares the cache key of a plain-valued one)
            bp = bindparam("mq", callable_=lambda: mq) if how == "callable" else bindparam("mq", 2)
            s = select(items.c.id).where(items.c.owner != owner).where(items.c.qty >= bp).order_by(items.c.id)
            if how == "stmt":
                s = s.params(mq=mq)
            return s, ({"mq": mq} if how == "exec" else None), None
        return dict(kind="core", desc="owner!=%r mq via %s (%s)" % (owner, how, mq), build=build)

    @fam("nested_stmt_params")
    def f7c(rng):
        # Executable.params() at several levels of one statement for the same bind name (outer select / scalar subquery, the two
        # sides of a union): whichever level wins, it has to be the same one with and without the cache
        shape = rng.choice(["union", "union", "subquery"])
        v1, v2 = rng.sample([1, 5, 8, 10], 2)
        # (siblings that disagree with nobody above them to decide are KF-C02-1: generated rarely, the finding ends the history)
        outer = rng.random() < (0.9 if shape == "union" else 0.5)
        def build():
            a = select(items.c.id).where(items.c.qty >= bindparam("mq", 2)).params(mq=v1)
            if shape == "union":
                b = select(items.c.id).where(items.c.qty < bindparam("mq", 2)).params(mq=v2)
                u = m["union_all"](a, b)
                if outer:
                    u = u.params(mq=v1 + v2)
                return u.order_by("id"), None, None
            sub = a.scalar_subquery()
            s2 = select(items.c.id, items.c.owner).where(items.c.id.in_(a)).where(items.c.qty < bindparam("hi", 99))
            s2 = s2.params(hi=50) if not outer else s2.params(hi=50, mq=v2)
            return s2.order_by(items.c.id), None, None
        return dict(kind="core", desc="%s mq=%s/%s outer=%s" % (shape, v1, v2, outer), build=build)

    @fam("literal_execute")
    def f8(rng):
        v = rng.choice([1, 5, 8])
        lim = rng.choice([1, 2, 3])
        le = rng.random() < 0.6
        return dict(kind="core", desc="literal_execute=%s qty>%s limit %s" % (le, v, lim),
                    build=lambda: (select(items.c.id).where(items.c.qty > bindparam("q", v, literal_execute=le)).order_by(items.c.id)
                                   .limit(lim), None, None))

    @fam("labels_subset")
    def f9(rng):
        lbl = rng.choice(["n", "nm", "x"])
        cols = rng.choice([["id"], ["id", "name"], ["name", "age"], ["age", "id", "name"]])
        return dict(kind="core", desc="cols %s label %s" % (cols, lbl),
                    build=lambda: (select(*[users.c[c] for c in cols], users.c.name.label(lbl)).order_by(users.c.id), None, None))

    @fam("typed_literal")
    def f10(rng):
        val = rng.choice([5, 30, "5"])
        typ = rng.choice(["int", "str", "auto"])
        def build():
            lit = literal(val, Integer) if typ == "int" and not isinstance(val, str) else (literal(str(val), String) if typ == "str" else literal(val))
            return select(users.c.id, lit.label("k"), cast(lit, String).label("ks")).order_by(users.c.id).limit(2), None, None
        return dict(kind="core", desc="literal %r as %s" % (val, typ), build=build)

    @fam("case_group")
    def f11(rng):
        a = rng.choice([20, 30, 45])
        h = rng.choice([0, 1, 2])
        def build():
            bucket = case((users.c.age >= a, "old"), else_="young").label("b")
            return select(bucket, func.count().label("n")).group_by(bucket).having(func.count() > h).order_by(bucket), None, None
        return dict(kind="core", desc="case age>=%s having>%s" % (a, h), build=build)

    @fam("text_stmt")
    def f12(rng):
        v = rng.choice([1, 3, 5])
        return dict(kind="core", desc="text id>%s" % v,
                    build=lambda: (m["text"]("select id, name from users where id > :v order by id"), {"v": v}, None))

    @fam("insert_keys")
    def f13(rng):
        keys = rng.choice([["name"], ["name", "age"], ["age"]])
        many = rng.random() < 0.4
        base = rng.randint(100, 10 ** 6)
        def build():
            rows = [{k: ("n%d" % (base + i) if k == "name" else (base + i) % 90) for k in keys} for i in range(3 if many else 1)]
            return users.insert(), (rows if many else rows[0]), None
        return dict(kind="dml", desc="insert keys %s many=%s" % (keys, many), build=build)

    @fam("insert_values_returning")
    def f14(rng):
        v = rng.choice(["q1", "q2", None])
        ret = rng.random() < 0.5
        def build():
            s = users.insert().values(name=v, age=rng_age)
            if ret:
                s = s.returning(users.c.name, users.c.age)
            return s, None, None
        rng_age = rng.choice([1, 2, 3])
        return dict(kind="dml", desc="insert values name=%r returning=%s" % (v, ret), build=build)

    @fam("update_delete")
    def f15(rng):
        which = rng.choice(["update", "delete"])
        o = rng.choice(OWNERS)
        q = rng.choice([100, 200])
        def build():
            if which == "update":
                return items.update().where(items.c.owner == o).values(qty=items.c.qty + q), None, None
            return items.delete().where(items.c.owner == o).where(items.c.qty > q), None, None
        return dict(kind="dml", desc="%s owner=%r q=%s" % (which, o, q), build=build)

    @fam("dml_embedded_params")
    def f15b(rng):
        # DML that embeds a SELECT carrying Executable.params(), executed with one parameter set or with a list of them
        nm = rng.choice(["alice", "bob", "carl"])
        many = rng.random() < 0.6
        ids = rng.sample([1, 2, 3, 4, 5, 6, 7], 3 if many else 1)
        def build():
            sub = select(func.count(items.c.id)).where(items.c.owner == bindparam("own", "nobody")).params(own=nm).scalar_subquery()
            s = items.update().where(items.c.id == bindparam("b_id")).values(qty=items.c.qty + sub)
            p = [{"b_id": i} for i in ids] if many else {"b_id": ids[0]}
            return s, p, None
        return dict(kind="dml", desc="update qty += count(owner=%r via stmt params) ids=%s many=%s" % (nm, ids, many), build=build)

    @fam("orm_options")
    def f16(rng):
        opt = rng.choice(["none", "selectin", "joined", "defer", "criteria", "and_obj", "and_obj"])
        uid = rng.choice([1, 2, 3, 6])
        v = rng.choice(["a@x", "b@x", "%@x", "%@y"])
        nm = rng.choice(NAMES[:4])
        def build():
            User, Address = m["User"], m["Address"]
            s = select(User).where(User.name == nm).order_by(User.id)
            if opt == "selectin":
                s = s.options(m["selectinload"](User.addresses))
            elif opt == "joined":
                s = s.options(m["joinedload"](User.addresses))
            elif opt == "defer":
                s = s.options(m["defer"](User.age))
            elif opt == "criteria":
                s = s.options(m["selectinload"](User.addresses), m["with_loader_criteria"](Address, Address.email.like(v)))
            elif opt == "and_obj":
                # relationship criteria comparing a many-to-one to an *object*: the bind gets its value from a callable
                s = s.options(m["selectinload"](User.addresses.and_(Address.user == User(id=uid))))
            return s, None, None
        return dict(kind="orm", desc="orm name=%r opt=%s crit=%r uid=%s" % (nm, opt, v, uid), build=build)

    @fam("orm_from_statement_params")
    def f16b(rng):
        # ORM from_statement() over text with a named bind valued through Executable.params() on the outer statement / on the text /
        # at execute time
        lo = rng.choice([18, 26, 40, 60])
        how = rng.choice(["outer", "outer", "text", "exec"])
        def build():
            User = m["User"]
            t = m["text"]("select id, name, age from users where age > :lo order by id")
            if how == "text":
                t = t.bindparams(lo=lo)
            s = select(User).from_statement(t)
            if how == "outer":
                s = s.params(lo=lo)
            return s, ({"lo": lo} if how == "exec" else None), None
        return dict(kind="orm", desc="from_statement(text) lo=%s via %s" % (lo, how), build=build)

    @fam("exec_options")
    def f17(rng):
        yp = rng.choice([None, 1, 2])
        a = rng.choice([20, 40])
        return dict(kind="core", desc="age>%s yield_per=%s" % (a, yp),
                    build=lambda: (select(users.c.id).where(users.c.age > a).order_by(users.c.id), None, ({"yield_per": yp} if yp else None)))

    return fams


def run_one(pair, conn_s, conn_r, sess_s, sess_r, item):
    """execute one generated operation on both engines; returns (outcome_subject, outcome_reference, sql/param captures)"""
    out = []
    caps = []
    for key, conn, sess in (("s", conn_s, sess_s), ("r", conn_r, sess_r)):
        n0 = len(pair.cap[key])
        try:
            stmt, params, opts = item["build"]()
            if item["kind"] == "orm":
                res = sess.execute(stmt, params or {}, execution_options=opts or {})
                objs = res.unique().scalars().all() if True else None
                rows = [(o.id, o.name, o.__dict__.get("age", "<deferred>"), [(a.id, a.email) for a in o.addresses]) for o in objs]
                sess.expunge_all()
                out.append(("rows", [repr(r) for r in rows]))
            else:
                res = conn.execute(stmt, params, execution_options=opts or {}) if params is not None else conn.execute(stmt, execution_options=opts or {})
                if res.returns_rows:
                    out.append(("rows", norm_rows(res.all())))
                else:
                    out.append(("rowcount", res.rowcount))
        except Exception as e:   # noqa
            out.append(("raised", type(e).__name__))
        caps.append(list(pair.cap[key][n0:]))
    return out[0], out[1], caps[0], caps[1]


def freeze_gc():
    gc.disable()
    gc.collect()
    gc.freeze()
