"""ormrun — interpreter + oracles for ormsim histories (see ormsim.py for the approach)."""
import gc
import os
import sqlite3
import warnings
import weakref

from . import ormsim as OS
from . import sqlproxy as SP

OPS_ALL = ["mk", "mk", "mk_child", "mk_child", "add", "set", "set", "set_parent", "bs_append", "bs_remove", "bs_replace", "tag_add", "tag_remove",
           "node_parent", "follow", "unfollow", "set_p", "k_rename", "h_doc", "delete", "expunge", "flush", "flush", "commit", "rollback",
           "begin_nested", "sp_commit", "sp_rollback", "close", "requery", "get", "lazy", "expire", "expire_all", "refresh",
           "mut_data", "mut_items", "ext_update", "merge", "drop", "gc", "pickle_rt", "populate_existing", "q_ops", "g_ops", "expire_attr", "read", "m_ops", "m_reload", "reset", "set_k", "bulk", "row_replace", "label", "make_transient"]


_ENGINES = {}
_CURRENT = {"run": None}
_MAPPER_EVENTS = set()


class InjectedListenerError(Exception):
    """raised by the harness from an ORM event hook (fault kind listener_exception)"""


DML_PREFIXES = ("INSERT", "UPDATE", "DELETE")


class Run:
    def __init__(self, case):
        self.m = OS.setup()
        self.case = case
        self.cfg = case["cfg"]
        self.U = self.m["universes"][self.cfg["universe"]]
        self.viol = []
        self.counters = {}
        self.trace = []
        self.objs = []          # tracked entries: dict(obj=strong ref or None, ref=weakref, cls, label, dropped)
        self.by_id = {}
        self.next_id = {}
        self.events = []        # (event name, obj id)
        self.sql = []           # statements emitted by the session's engine (since last clear)
        self.sp_stack = []      # savepoint model: snapshots of (label -> state) at begin_nested
        self.prev_tables = None
        self.loaded_before_set = {}
        self.expect_after_drop = []
        self.removed_rs = []
        self.pre_pk = {}
        self.deleted_in_op = set()
        self.pk_mem = {}
        self.txn_flushed = False
        self.dropped_pks = {}
        fk_on = self.cfg.get("fk_on", True)
        key = (os.getpid(), self.cfg["universe"], fk_on)
        allf = case.get("faults") or []
        self.plan = SP.Plan([f for f in allf if not str(f[0]).startswith(("listener:", "plant:"))])
        self.plan.enabled = False
        self.lplan = {(f[0][9:], int(f[1])): f[2] for f in allf if str(f[0]).startswith("listener:")}
        self.plant = [f[0][6:] for f in allf if str(f[0]).startswith("plant:")]
        self.planted = []
        self.lcount = {}
        self.lcalls = []
        self.lfired = []
        self.txn_start = None
        self.c32_recovered = False
        self.in_retry = False
        self._fired_mark = 0
        cached = _ENGINES.get(key)
        if cached is None:
            sub = os.path.join(OS._dir[0], "p%d" % os.getpid())       # one directory per worker: journal files come and go constantly
            os.makedirs(sub, exist_ok=True)
            path = os.path.join(sub, "o_%s_%d.db" % (key[1], int(fk_on)))
            for suffix in ("", "-journal"):
                try:
                    os.unlink(path + suffix)
                except OSError:
                    pass
            mod = SP.make_module(self.plan)
            engine = self.m["create_engine"]("sqlite:///" + path, module=mod, connect_args={"timeout": 0, "autocommit": False},
                                             poolclass=self.m["QueuePool"], pool_size=2, max_overflow=0)

            @self.m["event"].listens_for(engine, "connect")
            def on_connect(dbc, rec):
                # documented recipe (dialects/sqlite/base.py): non-legacy transaction control, so that SAVEPOINT is always inside a BEGIN;
                # the pragma is only effective outside a transaction
                dbc._real.autocommit = True
                dbc._real.execute("pragma foreign_keys=%s" % ("on" if fk_on else "off"))
                dbc._real.autocommit = False

            self.U["Base"].metadata.create_all(engine)
            holder = {"run": None}

            @self.m["event"].listens_for(engine, "before_cursor_execute")
            def cap(conn, cursor, statement, parameters, context, executemany):
                if holder["run"] is not None:
                    holder["run"].sql.append((statement, parameters))
            cached = _ENGINES[key] = (engine, mod, path, holder)
        self.engine, mod, self.path, holder = cached
        self.engine.dispose()
        mod.plan = self.plan
        holder["run"] = self
        self.obs = sqlite3.connect(self.path, timeout=0, isolation_level=None)
        for t in ("b_t", "nf", "nl", "o", "g", "r", "q", "h", "d", "bl", "p", "b", "a2", "a", "t", "node", "k", "m"):
            self.obs.execute("delete from %s" % t)
        self.session = None
        self.new_session()
        self.register_mapper_events()
        _CURRENT["run"] = self
        # fault positions are ordinals counted from here (table creation of the first run of a process must not shift them)
        self.plan.count.clear()
        del self.plan.calls[:]
        self.plan.enabled = True
        self.prev_tables = self.probe(committed=True)

    # ------------------------------------------------------------------ infrastructure
    def bump(self, k, n=1):
        self.counters[k] = self.counters.get(k, 0) + n

    def V(self, prop, oracle, sig, **detail):
        self.viol.append({"oracle": "%s:%s" % (prop, oracle), "sig": sig, "detail": detail, "prop": prop})

    def new_session(self):
        S = self.m["Session"]
        self.session = S(self.engine, autoflush=self.cfg.get("autoflush", True), expire_on_commit=self.cfg.get("expire_on_commit", True))
        ev = self.m["event"]
        for name in OS.EDGES:
            def mk(name):
                def fn(session, obj):
                    self.events.append((name, id(obj)))
                    if name == "persistent_to_deleted":
                        self.deleted_in_op.add((self.tab_of(type(obj).__name__), OS.pk_of(obj)))
                    self.lpoint(name)
                return fn
            ev.listen(self.session, name, mk(name))
        for name in ("before_flush", "after_flush", "after_flush_postexec", "after_rollback", "after_soft_rollback", "before_commit",
                     "after_begin"):
            ev.listen(self.session, name, (lambda n: lambda *a: self.lpoint(n))(name))
        self.sp_stack = []

    def register_mapper_events(self):
        key = self.cfg["universe"]
        if key in _MAPPER_EVENTS:
            return
        _MAPPER_EVENTS.add(key)
        ev = self.m["event"]
        for cn, C in self.U["classes"].items():
            for name in ("before_insert", "after_insert", "before_update", "after_update", "before_delete", "after_delete"):
                def mk(name, cn):
                    def fn(mapper, connection, target):
                        if type(target).__name__ != cn:
                            return          # inherited listener: counted once, on the class itself
                        run = _CURRENT["run"]
                        if run is not None:
                            run.lpoint(name)
                    return fn
                ev.listen(C, name, mk(name, cn))

    def lpoint(self, name):
        n = self.lcount[name] = self.lcount.get(name, 0) + 1
        self.lcalls.append((name, n))
        if self.lplan.get((name, n)) and self.plan.enabled:
            self.lfired.append((name, n))
            raise InjectedListenerError("injected exception in %s hook" % name)

    def quiet(self):
        """harness-internal helper sessions (reload check, detached copies read by a second session) are not fault targets"""
        import contextlib

        @contextlib.contextmanager
        def cm():
            was = self.plan.enabled
            self.plan.enabled = False
            try:
                yield
            finally:
                self.plan.enabled = was
        return cm()

    def fired_total(self):
        return len(self.plan.fired) + len(self.lfired)

    def faulted_now(self):
        """did an injected fault fire during the current operation"""
        return self.fired_total() > self._fired_mark

    def probe(self, committed=False):
        """table contents: through the session's own connection (sees its transaction) or the observer (committed only)"""
        if committed or self.session is None or not self.session.in_transaction():
            c = self.obs
        else:
            c = self.session.connection().connection.dbapi_connection._real
        out = {}
        for t, cols in self.U["tables"].items():
            rows = c.execute("select %s from %s" % (", ".join(cols), t)).fetchall()
            out[t] = {tuple(r[:2]) if t in ("b_t", "nf", "nl") else r[0]: tuple(r) for r in rows}
        return out

    def entries(self, pred=None):
        return [e for e in self.objs if e["obj"] is not None and (pred is None or pred(e))]

    def track(self, obj, cls=None):
        e = self.by_id.get(id(obj))
        if e is not None and e["obj"] is obj:
            return e
        e = {"obj": obj, "ref": weakref.ref(obj), "cls": cls or type(obj).__name__, "label": len(self.objs), "dropped": False}
        self.objs.append(e)
        self.by_id[id(obj)] = e
        return e

    def adopt(self):
        """track everything the session holds (objects loaded by cascades/lazy loads/queries)"""
        if self.cfg.get("no_adopt"):
            return
        fresh = [o for o in list(self.session.identity_map.values()) + list(self.session.new)
                 if not (id(o) in self.by_id and self.by_id[id(o)]["obj"] is o)]
        # the identity map's insertion order follows set iteration inside the unit of work (address dependent): labels must not
        fresh.sort(key=lambda o: (type(o).__name__, repr(OS.pk_of(o))))
        for o in fresh:
            self.track(o)

    def in_session(self, obj):
        return self.m["inspect"](obj).session is self.session

    def usable(self, e):
        o = e["obj"]
        if e.get("retired"):
            return False
        st = OS.state_of(o)
        if st in ("pending", "persistent"):
            return self.in_session(o) and o not in self.session.deleted
        if st == "transient":
            sx = self.m["inspect"](o)
            return not (sx.expired or sx.expired_attributes)      # (expired and then rolled back to transient: nothing left to use)
        return False

    def pair_ok(self, container, member):
        """R2: a change made from the side of an object that is not in the session does not cascade the object in (no backref
        cascade in 2.x) and then "won't proceed" at flush; such pairs are not generated"""
        return not (OS.state_of(container) == "transient" and self.in_session(member))

    def move_ok(self, child, new_parent):
        """R2: a *pending* child that is taken away from a delete-orphan parent is expunged on the spot (documented); attaching it to
        another parent in the same breath does not bring it back, so that move is not generated"""
        if "delete-orphan" not in self.U["cfg"]["bs"] or OS.state_of(child) not in ("pending", "transient"):
            return True      # (a transient child becomes pending - and is expunged again - in the middle of such a move)
        ok, cur = OS.loaded(child, "a")
        return (not ok) or cur is None or cur is new_parent

    def link_pending(self, o):
        """R1: the object has association rows (many-to-many) added and not yet flushed; deleting or orphaning it in the same flush is an
        invalid final state (a row in the association table for a deleted row)"""
        for an in OS.rel_attrs(self.U, o):
            if OS.rel_of(self.U, o, an)["kind"] == "m2m" and OS.loaded(o, an)[0]:
                if self.m["inspect"](o).attrs[an].history.added:
                    return True
        for x in self.entries():
            xo = x["obj"]
            for an in OS.rel_attrs(self.U, xo):
                if xo is not o and OS.rel_of(self.U, xo, an)["kind"] == "m2m" and OS.loaded(xo, an)[0]:
                    if any(y is o for y in self.m["inspect"](xo).attrs[an].history.added or ()):
                        return True
        return False

    def orphans_ok(self, bs):
        return "delete-orphan" not in self.U["cfg"]["bs"] or not any(self.link_pending(b) for b in bs)

    def member_ok(self, x):
        """R2: association changes that involve an object outside the session do not proceed - such members are left alone"""
        st = OS.state_of(x)
        return st == "transient" or (st in ("pending", "persistent") and self.in_session(x) and x not in self.session.deleted)

    def pick(self, arg, pred):
        # (an object whose row was deleted behind the session's back and replaced - row_replace - is never operated on again)
        c = [e for e in self.objs if e["obj"] is not None and not e.get("replaced") and pred(e)]
        return c[arg % len(c)] if c else None

    def of(self, *classes):
        return lambda e: e["cls"] in classes

    # ------------------------------------------------------------------ running
    def run(self):
        exc = self.m["exc"]
        try:
            with warnings.catch_warnings():
                warnings.simplefilter("ignore")
                stop = lambda: any(v["prop"] in self.case.get("stop_on", ()) or v["prop"] == "*" or not self.case.get("stop_on")
                                   for v in self.viol)
                for i, op in enumerate(self.case["prog"]):
                    self.step(i, op)
                    if stop() or self.c32_recovered:
                        break
                if not self.viol and not self.c32_recovered:
                    self.step(len(self.case["prog"]), ["commit", 0, 0])
                if self.c32_recovered and not stop():
                    self.c32_retry()
                if self.case.get("c32") and not self.c32_bad():
                    self.c32_collect()
        finally:
            self.cleanup()
        return self.result()

    def cleanup(self):
        try:
            if self.session is not None:
                self.session.close()
        except Exception:
            pass
        for e in self.objs:
            e["obj"] = None
        self.by_id.clear()
        try:
            self.engine.dispose()
        except Exception:
            pass
        self.obs.close()
        _ENGINES[(os.getpid(), self.cfg["universe"], self.cfg.get("fk_on", True))][3]["run"] = None
        _CURRENT["run"] = None
        gc.collect()

    def result(self):
        from .core import digest_of
        for k, n, f, cid in self.plan.fired:
            self.bump("fault:%s_%s" % (k.split(":")[0], f))
        for name, n in self.lfired:
            self.bump("fault:listener_exception_" + name)
        for cn in self.planted_ever if hasattr(self, "planted_ever") else ():
            self.bump("fault:real_integrity_conflict")
        self.bump("ops", len(self.trace))
        self.bump("universe_" + self.cfg["universe"])
        return {"viol": self.viol, "digest": digest_of([self.cfg, self.case["prog"], self.case.get("faults"), self.trace]),
                "nontrivial": self.counters.get("probe:flush_with_changes", 0) > 0,
                "counters": self.counters, "sets": {"abstract_states": [[self.cfg["universe"], len(self.objs), len(self.trace) // 5]]},
                "trace": self.trace[:60], "derive": getattr(self, "derive_info", None)}

    # ------------------------------------------------------------------ one operation
    def step(self, i, op):
        kind, a1, a2 = op[0], op[1], op[2]
        before = {e["label"]: OS.state_of(e["obj"]) for e in self.entries()}
        self.before_states = {e["label"]: (OS.state_of(e["obj"]), self.in_session(e["obj"])) for e in self.entries()}
        self.deleted_in_op = set()
        del self.events[:]
        del self.sql[:]
        out = None
        exc = self.m["exc"]
        self._fired_mark = self.fired_total()
        self.expected_integrity = False
        try:
            out = getattr(self, "op_" + kind)(a1, a2)
        except exc.IntegrityError as e:
            out = "IntegrityError"
            if not self.faulted_now() and not self.planted and not getattr(self, "expected_integrity", False):
                self.V("C31", "flush_integrity_error", "flush raised IntegrityError although the final in-memory state satisfies every constraint "
                       "(universe %s, op %s): %s" % (self.cfg["universe"], kind, str(e).split("\n")[0][:100]), op=i)
            self.recover(i, kind)
        except exc.PendingRollbackError:
            out = "PendingRollbackError"
            self.recover(i, kind)
        except exc.InvalidRequestError as e:
            out = "InvalidRequestError"
            if isinstance(e, self.m["orm_exc"].ObjectDeletedError) or "has been deleted.  Use the make_transient" in str(e) or \
                    ("Can not remove" in str(e) and "collection holds" in str(e)):
                # the documented usage errors these workloads can run into (touching an object whose row the flush just deleted, a
                # cascade reaching an instance that "has been deleted", a keyed collection asked to drop a member whose key another
                # member took over); not a verdict
                self.bump("probe:usage_error")
            else:
                # any other refusal ("Session is already flushing", "This session is in 'inactive' state", ...) means the session did
                # not do the documented work
                self.V("*", "unexpected_exception", "operation %s raised %s: %s" % (kind, type(e).__name__, str(e).split("\n")[0][:110]), op=i)
            self.recover(i, kind)
        except self.m["orm_exc"].FlushError as e:
            out = "FlushError"
            self.V("C39", "unexpected_flush_error", "flush raised FlushError inside documented usage: %s" % str(e)[:120], op=i)
            self.recover(i, kind)
        except self.m["orm_exc"].StaleDataError as e:
            out = "StaleDataError"
            self.V("C33", "session_object_without_row", "flush raised StaleDataError: the session holds a persistent object whose row does not exist "
                   "(%s)" % str(e)[:90], op=i)
            self.recover(i, kind)
        except exc.DBAPIError as e:
            out = "DBAPIError"
            if not self.faulted_now():
                self.V("C30", "unexpected_db_error", "operation %s raised %s: %s" % (kind, type(e).__name__, str(e).split("\n")[0][:100]), op=i)
            self.recover(i, kind)
        except InjectedListenerError:
            out = "ListenerError"
            self.recover(i, kind)
        except (AssertionError, AttributeError, KeyError, TypeError, IndexError, self.m["exc"].SQLAlchemyError) as e:
            # an internal error escaping from documented usage: the operation did not do its work (counts for whichever property is checked)
            import traceback
            tb = traceback.extract_tb(e.__traceback__)
            site = next((f for f in reversed(tb) if "/sqlalchemy/" in f.filename), tb[-1])
            out = "InternalError"
            self.V("*", "unexpected_exception", "operation %s raised %s: %s (at %s:%s)" % (kind, type(e).__name__, str(e).split("\n")[0][:100],
                                                                                        site.filename.split("/sqlalchemy/")[-1], site.name), op=i)
            try:
                self.session.rollback()
                self.after_rollback()
            except Exception:
                pass
        self.trace.append([i, kind, a1, a2, out if isinstance(out, (str, int, type(None))) else str(out)[:40]])
        self.adopt()
        # canonical state vector (part of the run digest: labels, states and membership must not depend on addresses or set order)
        self.trace[-1].append(" ".join("%d%s%s%s" % (e["label"], e["cls"], OS.state_of(e["obj"])[:3], "" if self.in_session(e["obj"]) else "-")
                                       for e in self.entries()))
        if kind not in ("flush", "commit", "rollback", "begin_nested", "sp_commit", "sp_rollback", "close") and \
                not (isinstance(out, str) and out.endswith("Error")) and \
                any(st.lstrip().split(" ", 1)[0] in ("INSERT", "UPDATE", "DELETE") for st, _p in self.sql):
            # the operation autoflushed: the same row oracle applies, and the snapshot moves on
            self.bump("probe:autoflush")
            self.txn_flushed = True
            self.loaded_before_set.clear()
            now = self.probe()
            self.pre_pk = dict(self.pk_mem)
            if not (self.session.new or self.session.dirty or self.session.deleted):
                self.check_rows(now, "autoflush in " + kind)     # (the operation itself may have changed objects *after* its autoflush)
            self.prev_tables = now
        if out == "skip" or kind == "reset":
            return
        self.bump("op:" + kind)              # operations that were carried out (not skipped): used by the non-triviality rules
        self.pk_mem = {e["label"]: OS.pk_of(e["obj"]) for e in self.entries() if self.in_session(e["obj"])}
        rolled_back = kind in ("rollback", "sp_rollback") or (isinstance(out, str) and out.endswith("Error"))
        self.check_lifecycle(i, kind, before, rolled_back)
        if rolled_back:
            self.retire_rolled_back(before)
        self.check_backrefs(i, kind)
        self.check_identity(i, kind)


    # ------------------------------------------------------------------ C32: failed flush, recovery, retry
    def c32_bad(self):
        return any(v["prop"] in ("C32", "*") for v in self.viol)

    def recover(self, i, kind):
        """an operation raised: the documented recovery is Session.rollback().  When the failure was injected (or planted) and the history
        is a C32 history, the guarantees of C32 are checked around that rollback"""
        c32 = bool(self.case.get("c32")) and self.txn_start is not None and not self.in_retry and (self.faulted_now() or bool(self.planted))
        if c32:
            self.c32_before_rollback(kind)
        try:
            try:
                self.session.rollback()
            except (self.m["exc"].DBAPIError, InjectedListenerError):
                # a fault injected into the rollback itself (rollback_error / after_rollback hook): the state was restored before the
                # error was reported (documented); a second call is a no-op
                self.bump("probe:rollback_raised")
                self.session.rollback()
        except Exception as ex:
            # the documented recovery itself is refused: the session cannot be used any more
            self.V("C32" if c32 else "*", "session_not_recoverable", "Session.rollback() after the failed operation raised %s: %s"
                   % (type(ex).__name__, str(ex).split("\n")[0][:110]))
            try:
                self.session.close()
            except Exception:
                pass
            for e in self.objs:
                e["retired"] = True
            self.new_session()
            return
        self.after_rollback()
        if c32 and not self.c32_bad():
            self.c32_after_rollback(kind)
            self.c32_recovered = True

    ALL_CLASSES = ("A", "B", "T", "Node", "K", "P", "BL", "D", "H", "Q", "R", "G", "O", "M")

    def op_reset(self, a1, a2, reuse_session=False):
        """C32 transaction boundary: commit, let go of every object, (new) session, load every row in a fixed order.  The fault-free run,
        the faulted run and the retry all start their transaction from here"""
        if not reuse_session:
            if self.session.in_transaction() or self.session.new or self.session.dirty or self.session.deleted:
                self.op_commit(0, 0)
                if self.c32_bad():
                    return "commit-first"
        self.session.close()
        for e in self.objs:
            e["obj"] = None
        self.objs = []
        self.by_id.clear()
        self.removed_rs = []
        self.loaded_before_set.clear()
        self.dropped_pks = {}
        self.pk_mem = {}
        self.pre_pk = {}
        gc.collect()
        if not reuse_session:
            self.new_session()
        if self.txn_start is not None:
            self.next_id = dict(self.txn_start["next_id"])
        sel = self.m["select"]
        for cn in self.ALL_CLASSES:
            C = self.U["classes"][cn]
            pkcol = C.name if cn == "K" else C.id
            for o in self.session.execute(sel(C).order_by(pkcol)).scalars().all():
                self.track(o)
        self.session.commit()          # ends the read transaction (the observer may write now); expires per expire_on_commit
        if self.case.get("c32"):
            self.engine.dispose()      # the first database access of the transaction has to open a connection (a fault position)
        self.txn_flushed = False
        self.sp_stack = []
        tabs = self.probe(committed=True)
        if self.txn_start is None:
            self.txn_start = {"tables": tabs, "next_id": dict(self.next_id), "n": len(self.objs), "op": len(self.trace),
                              "call0": len(self.plan.calls), "lcall0": len(self.lcalls)}
            for cn in self.plant:
                self.plant_row(cn)
            tabs = self.probe(committed=True)
        elif tabs != self.txn_start["tables"]:
            self.V("C32", "rows_changed_by_failed_transaction", "committed rows differ from those at the start of the failed transaction: %s"
                   % self.diff_tables(self.txn_start["tables"], tabs))
        self.prev_tables = tabs
        return "reset:%d" % len(self.objs)

    def plant_row(self, cn):
        """a committed row with the primary key the next object of that class will get: the INSERT of the flush hits a real constraint"""
        n = self.next_id.get("A" if cn == "A2" else cn, 0) + 1
        tab = self.tab_of(cn)
        sql = {"a": ("insert into a (id, name, kind) values (?, 'planted', 'a')", (n,)), "t": ("insert into t (id, name) values (?, 'planted')", (n,)),
               "node": ("insert into node (id, name) values (?, 'planted')", (n,)), "k": ("insert into k (name, val) values (?, 0)", ("k%d" % n,)),
               "p": ("insert into p (id, note) values (?, 'planted')", (n,)), "m": ("insert into m (id) values (?)", (n,)),
               "g": ("insert into g (id, note) values (?, 'planted')", (n,)), "q": ("insert into q (id, note) values (?, 'planted')", (n,)),
               "h": ("insert into h (id, note) values (?, 'planted')", (n,))}.get(tab)
        if sql is None:
            return
        self.obs.execute(*sql)
        self.planted.append((tab, sql[1][0]))
        self.planted_ever = getattr(self, "planted_ever", []) + [cn]

    def unplant(self):
        for tab, pk in self.planted:
            self.obs.execute("delete from %s where %s=?" % (tab, "name" if tab == "k" else "id"), (pk,))
        self.planted = []

    def c32_start_tables(self):
        t = {k: dict(v) for k, v in self.txn_start["tables"].items()}
        if self.planted:
            now = self.probe(committed=True)
            for tab, pk in self.planted:
                if pk in now[tab]:
                    t[tab][pk] = now[tab][pk]
        return t

    def c32_before_rollback(self, kind):
        want = self.c32_start_tables()
        now = self.probe(committed=True)
        if now != want:
            self.V("C32", "failed_flush_left_committed_rows", "rows committed although the flush failed (before rollback): %s" % self.diff_tables(want, now))
        stmt_fault = any(k.startswith("execute") for k, n, f, cid in self.plan.fired[-1:]) and not self.lfired
        if stmt_fault and kind != "commit" and len(self.trace) % 2 == 0:
            # without rollback() the session refuses further work; in particular a commit must not publish part of the failed flush
            try:
                self.session.commit()
                raised = False
            except (self.m["exc"].SQLAlchemyError, InjectedListenerError):
                raised = True
            now = self.probe(committed=True)
            if now != want:
                self.V("C32", "commit_after_failed_flush_published_rows", "commit() after the failed flush (no rollback yet) committed rows of "
                       "the failed transaction: %s" % self.diff_tables(want, now))
            elif not raised:
                self.V("C32", "commit_after_failed_flush_succeeded", "commit() right after a flush that failed at a statement did not raise")
            self.bump("probe:commit_attempt_before_rollback")

    def c32_rel_expect(self, e, an, tabs):
        """members of a relationship according to the rows: sorted pks (dict collection: {key: pk})"""
        o = e["obj"]
        r = OS.rel_of(self.U, o, an)
        pk = OS.pk_of(o)
        if r["kind"] == "m2m":
            t2, own, oth = r["assoc"]
            cols = self.U["tables"][t2]
            return sorted(rr[cols.index(oth)] for rr in tabs[t2].values() if rr[cols.index(own)] == pk)
        t2, col = r["fk"]
        cols = self.U["tables"][t2]
        if r["kind"] == "m2o":
            row = tabs[t2].get(pk)
            fk = row[cols.index(col)] if row is not None else None
            return [fk] if fk is not None else []
        return sorted(k for k, rr in tabs[t2].items() if rr[cols.index(col)] == pk)

    def c32_after_rollback(self, kind):
        sess = self.session
        want = self.c32_start_tables()
        now = self.probe(committed=True)
        if now != want:
            self.V("C32", "rows_changed_by_failed_transaction", "after rollback the committed rows differ from those at the start of the "
                   "transaction: %s" % self.diff_tables(want, now))
            return
        n0 = self.txn_start["n"]
        for e in self.entries():
            o, st, ins = e["obj"], OS.state_of(e["obj"]), self.in_session(e["obj"])
            if e["label"] >= n0:
                if ins or st not in ("transient",):
                    self.V("C32", "added_object_not_transient", "%s created in the failed transaction is %s%s after rollback, not transient"
                           % (e["cls"], st, " (in the session)" if ins else ""))
            elif not e.get("expunged"):
                if st != "persistent" or not ins:
                    self.V("C32", "object_not_persistent_again", "%s #%s was persistent when the transaction began and is %s%s after its rollback"
                           % (e["cls"], OS.pk_of(o), st, "" if ins else " (not in the session)"))
        if sess.new or sess.dirty or sess.deleted:
            self.V("C32", "pending_work_after_rollback", "after rollback the session still lists new=%d dirty=%d deleted=%d"
                   % (len(sess.new), len(sess.dirty), len(sess.deleted)))
        if self.c32_bad():
            return
        # attributes reload current values
        for e in self.entries():
            o = e["obj"]
            if e["label"] >= n0 or e.get("expunged") or not self.in_session(o):
                continue
            pk = OS.pk_of(o)
            tab = self.tab_of(e["cls"])
            row = now[tab].get(pk)
            if row is None:
                self.V("C32", "object_not_persistent_again", "%s #%s is persistent after rollback but has no row" % (e["cls"], pk))
                continue
            cols = self.U["tables"][tab]
            for an in self.U["scal"][e["cls"]]:
                got = getattr(o, an)
                dbv = now["a2"][pk][1] if an == "extra" else row[cols.index(an)]
                if got != dbv:
                    self.V("C32", "attribute_not_reloaded", "after rollback %s #%s.%s reads %r, the row has %r" % (e["cls"], pk, an, got, dbv))
            if e["cls"] == "M":
                for an, dbv in self.m_row_values(row).items():
                    if self.m_plain(an, getattr(o, an)) != dbv:
                        self.V("C32", "attribute_not_reloaded", "after rollback M #%s.%s reads %r, the row has %r" % (pk, an, getattr(o, an), dbv))
            for an in OS.rel_attrs(self.U, o):
                v = getattr(o, an)
                mem = OS.members(v)
                got = sorted(OS.pk_of(x) for x in mem)
                exp = self.c32_rel_expect(e, an, now)
                if got != exp:
                    self.V("C32", "relationship_not_reloaded", "after rollback %s #%s.%s holds %s, the rows say %s" % (e["cls"], pk, an, got, exp))
                for x in mem:
                    if OS.state_of(x) != "persistent" or not self.in_session(x):
                        self.V("C32", "relationship_not_reloaded", "after rollback %s #%s.%s holds a %s object" % (e["cls"], pk, an, OS.state_of(x)))
        if sess.new or sess.dirty or sess.deleted:
            self.V("C32", "pending_work_after_rollback", "reading the attributes after rollback left new=%d dirty=%d deleted=%d in the session"
                   % (len(sess.new), len(sess.dirty), len(sess.deleted)))
        if self.c32_bad():
            return
        del self.sql[:]
        try:
            sess.commit()
        except Exception as ex:
            self.V("C32", "session_not_usable_after_rollback", "commit() of the empty session after rollback raised %s: %s" % (type(ex).__name__, str(ex)[:80]))
            return
        if self.probe(committed=True) != want:
            self.V("C32", "empty_commit_wrote_rows", "a commit with no new work after the rollback changed rows: %s"
                   % self.diff_tables(want, self.probe(committed=True)))
        self.bump("probe:recovered_after_fault")

    def c32_retry(self):
        """the same work again, same Session object, no fault: must end where the fault-free run ended"""
        self.in_retry = True
        self.plan.enabled = False
        self.lplan = {}
        self.unplant()
        first = self.txn_start["op"]          # trace index of the reset op == its index in prog
        reset_at = next(i for i, op in enumerate(self.case["prog"]) if op[0] == "reset")
        self.op_reset(0, 0, reuse_session=True)
        if self.c32_bad():
            return
        for i, op in enumerate(self.case["prog"]):
            if i <= reset_at:
                continue
            self.step(i, op)
            if self.c32_bad():
                return
        self.step(len(self.case["prog"]), ["commit", 0, 0])
        if self.c32_bad():
            return
        final = self.tables_json(self.probe(committed=True))
        exp = self.case.get("expect_final")
        if exp is not None and final != exp:
            self.V("C32", "retry_differs_from_fault_free_run", "repeating the work after the failed flush ended in different rows than the "
                   "fault-free run: %s" % self.diff_tables(self.tables_unjson(exp), self.tables_unjson(final)))
        self.bump("probe:retry_completed")

    def tables_json(self, tabs):
        return {t: sorted([list(map(self.cell, r)) for r in rows.values()], key=repr) for t, rows in tabs.items()}

    @staticmethod
    def cell(v):
        return v.hex() if isinstance(v, (bytes, bytearray)) else v

    def tables_unjson(self, j):
        return {t: {(tuple(r[:2]) if t in ("b_t", "nf", "nl") else r[0]): tuple(r) for r in rows} for t, rows in j.items()}

    def c32_collect(self):
        """fault-free run: the positions a fault can be injected at (DML statements and ORM hooks of the transaction after reset)"""
        if self.txn_start is None or self.in_retry or self.fired_total() or self.planted:
            return
        counts, pts = {}, []
        for j, (kind, head, cid, n) in enumerate(self.plan.calls):
            if kind not in ("execute", "executemany") or not head or not head.startswith(DML_PREFIXES):
                continue
            pred = "%s:%s " % (kind, " ".join(head.split()[:3]))
            counts[pred] = counts.get(pred, 0) + 1
            if j >= self.txn_start["call0"]:
                pts.append([pred, counts[pred]])
        nconn = 0
        for j, (kind, head, cid, n) in enumerate(self.plan.calls):
            if kind == "connect":
                nconn += 1
                if j >= self.txn_start["call0"]:
                    pts.append(["connect", nconn])
        # hooks that run inside flush (the rest fire in commit / rollback / close, outside what C32 is about)
        flush_hooks = ("before_flush", "after_flush", "after_flush_postexec", "before_insert", "after_insert", "before_update", "after_update",
                       "before_delete", "after_delete", "pending_to_persistent", "persistent_to_deleted", "after_begin")
        lpts = [[name, n] for name, n in self.lcalls[self.txn_start["lcall0"]:] if name in flush_hooks]
        created = []
        for t in self.trace:
            if t[0] > self.txn_start["op"] and t[1] == "mk" and isinstance(t[4], str) and t[4] in self.U["classes"] and t[4] not in created:
                created.append(t[4])
        # (statement order across mappers inside one flush follows set iteration in the unit of work: canonical order here)
        pts.sort()
        lpts.sort()
        self.derive_info = {"points": pts, "lpoints": lpts, "created": created, "final": self.tables_json(self.probe(committed=True))}

    # ------------------------------------------------------------------ operations
    def _newid(self, cls):
        base = "A" if cls == "A2" else cls
        self.next_id[base] = self.next_id.get(base, 0) + 1
        return self.next_id[base]

    def op_mk(self, a1, a2):
        names = ["A", "A", "A2", "T", "Node", "Node", "K", "P"]
        cn = names[a1 % len(names)]
        if len(self.entries(self.of(cn))) >= 6:
            return "skip"
        C = self.U["classes"][cn]
        n = self._newid(cn)
        if cn == "K":
            o = C(name="k%d" % n, val=a2, memo="m%d" % a2)
        elif cn == "A":
            o = C(id=n, name="a%d" % a2, data={"k": a2}, items=[a2])
        elif cn == "A2":
            o = C(id=n, name="a%d" % a2, extra="x%d" % a2, data={"k": a2}, items=[a2])
        elif cn == "P":
            o = C(id=n, note="p%d" % a2)
        else:
            o = C(id=n, name="%s%d" % (cn[0].lower(), a2))
        self.track(o, cn)
        if a2 % 3 != 0:
            before_members = self.members()
            self.session.add(o)
            self.check_add_cascade(o, before_members)
        return cn

    def op_mk_child(self, a1, a2):
        """a B attached to a parent A through the collection, or an H with its D (and BL)"""
        if a2 % 4 == 0:
            if len(self.entries(self.of("H"))) >= 4:
                return "skip"
            C = self.U["classes"]
            h = C["H"](id=self._newid("H"), note="h%d" % a1)
            d = C["D"](id=self._newid("D"), note="d%d" % a1)
            h.doc = d
            if a1 % 2:
                d.blob = C["BL"](id=self._newid("BL"), note="bl%d" % a1)
                self.track(d.blob, "BL")
            self.track(h, "H")
            self.track(d, "D")
            before_members = self.members()
            self.session.add(h)
            self.check_add_cascade(h, before_members)
            return "H"
        pa = self.pick(a1, lambda e: e["cls"] in ("A", "A2") and self.usable(e) and OS.state_of(e["obj"]) != "transient")
        if pa is None or len(self.entries(self.of("B"))) >= 8:
            return "skip"
        b = self.U["classes"]["B"](id=self._newid("B"), val=a2)
        self.track(b, "B")
        before_members = self.members()
        pa["obj"].bs.append(b)
        self.check_add_cascade(pa["obj"], before_members)
        return "B"

    def members(self):
        m = {id(o) for o in list(self.session.identity_map.values()) + list(self.session.new)}
        m.update(id(e["obj"]) for e in self.entries() if self.in_session(e["obj"]))     # incl. objects in the 'deleted' state
        return m

    def op_add(self, a1, a2):
        e = self.pick(a1, lambda e: OS.state_of(e["obj"]) in ("transient", "detached") and e["cls"] not in ("D", "BL", "R", "O") and
                      (not e.get("retired") or (self.cfg.get("readd") and e.get("rolled_back") and e["cls"] in ("K", "T", "Node", "M", "P"))) and
                      not (e["cls"] == "B" and "delete-orphan" in self.U["cfg"]["bs"] and OS.loaded(e["obj"], "a")[1] is None))
        if e is None:
            return "skip"
        if OS.state_of(e["obj"]) == "detached":
            key = self.m["inspect"](e["obj"]).key
            if key is not None and key in self.session.identity_map and self.session.identity_map[key] is not e["obj"]:
                return "skip"      # another instance with that identity is already present: documented error
            if self.m["inspect"](e["obj"]).was_deleted:
                return "skip"
        for x in list(self.closure(e["obj"], "save-update")) + [e["obj"]]:
            sx = self.m["inspect"](x)
            if sx.transient and (sx.expired or sx.expired_attributes):
                return "skip"      # expired, then its row was rolled back: what it held is gone for good (expire discards by contract)
        for x in self.closure(e["obj"], "save-update"):
            kx = self.m["inspect"](x).key
            if kx is not None and kx in self.session.identity_map and self.session.identity_map[kx] is not x:
                return "skip"      # the save-update cascade would reach an object whose identity another instance holds: documented error
        before_members = self.members()
        if e.get("rolled_back"):
            # relationships of the rolled-back object are let go of first (only the object itself is tried again)
            for an in OS.rel_attrs(self.U, e["obj"]):
                if OS.loaded(e["obj"], an)[0] and OS.members(OS.loaded(e["obj"], an)[1]):
                    return "skip"
            pk = OS.pk_of(e["obj"])
            if pk is None or pk in self.probe()[self.tab_of(e["cls"])]:
                return "skip"
            e["retired"] = False
            self.bump("probe:readd_after_rollback")
        self.session.add(e["obj"])
        self.check_add_cascade(e["obj"], before_members)
        return e["label"]

    def op_set(self, a1, a2):
        e = self.pick(a1, lambda e: self.usable(e) and self.U["scal"][e["cls"]])
        if e is None:
            return "skip"
        o = e["obj"]
        attr = self.U["scal"][e["cls"]][a2 % len(self.U["scal"][e["cls"]])]
        self.loaded_before_set.setdefault((e["label"], attr), OS.loaded(o, attr)[0] or OS.state_of(o) in ("transient", "pending"))
        val = a2 if attr == "val" else "%s%d" % (attr[0], a2)
        if a2 % 11 == 7 and OS.state_of(o) == "persistent" and OS.loaded(o, attr)[0] and \
                not self.m["inspect"](o).attrs[attr].history.has_changes():
            # 'del obj.attr' of a loaded column attribute: the attribute reads None and the flush writes NULL
            delattr(o, attr)
            if getattr(o, attr) is not None:
                self.V("C36", "deleted_attribute_has_value", "%s.%s reads %r after 'del'" % (e["cls"], attr, getattr(o, attr)))
            self.bump("probe:scalar_attribute_deleted")
            return "%d.%s del" % (e["label"], attr)
        setattr(o, attr, val)
        return "%d.%s" % (e["label"], attr)

    def op_set_parent(self, a1, a2):
        b = self.pick(a1, lambda e: e["cls"] == "B" and self.usable(e))
        if b is None:
            return "skip"
        if a2 % 4 == 0:
            if not self.U["cfg"]["fk_nullable"] and "delete-orphan" not in self.U["cfg"]["bs"]:
                return "skip"
            target = None
        else:
            pa = self.pick(a2, lambda e: e["cls"] in ("A", "A2") and self.usable(e))
            if pa is None:
                return "skip"
            target = pa["obj"]
        if OS.state_of(b["obj"]) == "transient" and target is None:
            return "skip"
        if target is not None and (not self.pair_ok(b["obj"], target) or not self.move_ok(b["obj"], target)):
            return "skip"
        if OS.state_of(b["obj"]) == "persistent" and not OS.loaded(b["obj"], "a")[0]:
            # replacing a many-to-one whose previous value is not loaded fires no removal on the old parent's side (no active_history):
            # delete-orphan and the backref then have nothing to work with.  Applications read the reference first; so does the harness.
            b["obj"].a
        if target is None and not self.orphans_ok([b["obj"]]):
            return "skip"
        before_members = self.members()
        b["obj"].a = target
        if target is not None and self.in_session(b["obj"]):
            self.check_add_cascade(b["obj"], before_members)
        return "%d->%s" % (b["label"], None if target is None else self.by_id[id(target)]["label"])

    def op_bs_append(self, a1, a2):
        pa = self.pick(a1, lambda e: e["cls"] in ("A", "A2") and self.usable(e))
        b = self.pick(a2, lambda e: e["cls"] == "B" and self.usable(e))
        if pa is None or b is None:
            return "skip"
        ok, cur = OS.loaded(pa["obj"], "bs")
        if OS.state_of(pa["obj"]) != "transient" or True:
            if b["obj"] in pa["obj"].bs:
                return "skip"
        if not self.pair_ok(pa["obj"], b["obj"]) or not self.move_ok(b["obj"], pa["obj"]):
            return "skip"
        if OS.state_of(b["obj"]) == "persistent" and not OS.loaded(b["obj"], "a")[0]:
            # same rule as op_set_parent: the many-to-one side does not load its previous value, so the previous parent cannot be told;
            # applications read the reference first - without autoflush and with pending work that read would be stale (R3): skip
            if not self.cfg.get("autoflush", True) and (self.session.new or self.session.dirty or self.session.deleted):
                return "skip"
            b["obj"].a
        before_members = self.members()
        pa["obj"].bs.append(b["obj"])
        if self.in_session(pa["obj"]):
            self.check_add_cascade(pa["obj"], before_members)
        return "%d+=%d" % (pa["label"], b["label"])

    def op_bs_remove(self, a1, a2):
        pa = self.pick(a1, lambda e: e["cls"] in ("A", "A2") and self.usable(e) and len(e["obj"].bs) > 0)
        if pa is None:
            return "skip"
        if not self.U["cfg"]["fk_nullable"] and "delete-orphan" not in self.U["cfg"]["bs"]:
            return "skip"
        lst = pa["obj"].bs
        b = lst[a2 % len(lst)]
        how = (a2 // 8) % 8
        if how >= 4:
            # removal of several members at once: del of the whole attribute, slice deletion, clear(), pop()
            gone = {4: list(lst), 5: list(lst[0:2]), 6: list(lst), 7: list(lst[-1:])}[how]
            if any(x in self.session.deleted or not self.member_ok(x) for x in gone) or not self.orphans_ok(gone):
                return "skip"
            if how == 4:
                del pa["obj"].bs
            elif how == 5:
                del lst[0:2]
            elif how == 6:
                lst.clear()
            else:
                lst.pop()
            for x in gone:
                self.track(x)
            return "%d-=%s" % (pa["label"], {4: "del", 5: "slice", 6: "clear", 7: "pop"}[how])
        if b in self.session.deleted or not self.member_ok(b) or not self.orphans_ok([b]):
            return "skip"
        lst.remove(b)
        return "%d-=%d" % (pa["label"], self.track(b)["label"])

    def op_bs_replace(self, a1, a2):
        pa = self.pick(a1, lambda e: e["cls"] in ("A", "A2") and self.usable(e) and OS.state_of(e["obj"]) != "transient")
        if pa is None:
            return "skip"
        if not self.U["cfg"]["fk_nullable"] and "delete-orphan" not in self.U["cfg"]["bs"]:
            return "skip"
        cand = [e["obj"] for e in self.entries(lambda e: e["cls"] == "B" and self.usable(e))]
        if not cand:
            return "skip"
        k = a2 % (len(cand) + 1)
        new = [cand[(a2 + j) % len(cand)] for j in range(k)]
        new = list(dict.fromkeys(new))
        if not all(self.move_ok(x, pa["obj"]) and self.pair_ok(pa["obj"], x) for x in new):
            return "skip"
        for x in new:
            if OS.state_of(x) == "persistent" and not OS.loaded(x, "a")[0]:
                # same rule as op_set_parent / op_bs_append: the many-to-one side does not load its previous value, so the previous parent
                # cannot be told; applications read the reference first (without autoflush and with pending work that read is stale: skip)
                if not self.cfg.get("autoflush", True) and (self.session.new or self.session.dirty or self.session.deleted):
                    return "skip"
                x.a
        before_members = self.members()
        if not all(self.member_ok(x) for x in pa["obj"].bs):
            return "skip"
        if a2 % 7 == 3 and len(pa["obj"].bs) >= 1:
            # assignments that put members where they already are (merge-and-store-back, swap idioms with i == j, shuffles):
            # nothing changes on either side
            lst = pa["obj"].bs
            i = a1 % len(lst)
            how = (a2 // 7) % 3
            if how and "delete-orphan" in self.U["cfg"]["bs"] and any(OS.state_of(x) != "persistent" for x in lst):
                how = 0      # R2: a swap takes a member out for a moment; a pending member of a delete-orphan parent is expunged on the spot
            if how == 0:
                lst[i] = lst[i]
            elif how == 1:
                lst[::2] = lst[::2]
            else:
                j = (i + a2) % len(lst)
                if i != j:
                    self.swapped = getattr(self, "swapped", set()) | {id(lst[i]), id(lst[j])}
                lst[i], lst[j] = lst[j], lst[i]
            return "%d:=same(%d)" % (pa["label"], how)
        if a2 % 2 and len(pa["obj"].bs) >= 1:
            rest = pa["obj"].bs[1:]
            repl = [x for x in new[:2] if x not in rest]
            if not self.orphans_ok([x for x in pa["obj"].bs[0:1] if x not in repl]):
                return "skip"
            pa["obj"].bs[0:1] = repl        # slice assignment (an object is never put in twice)
        elif not self.orphans_ok([x for x in pa["obj"].bs if x not in new]):
            return "skip"
        else:
            pa["obj"].bs = new                 # whole-collection replacement
        self.check_add_cascade(pa["obj"], before_members)
        return "%d:=[%d]" % (pa["label"], len(new))

    def op_tag_add(self, a1, a2):
        b = self.pick(a1, lambda e: e["cls"] == "B" and self.usable(e))
        t = self.pick(a2, lambda e: e["cls"] == "T" and self.usable(e))
        if b is None or t is None:
            return "skip"
        if not self.pair_ok(b["obj"], t["obj"]) or not self.pair_ok(t["obj"], b["obj"]):
            return "skip"
        if "delete-orphan" in self.U["cfg"]["bs"] and OS.loaded(b["obj"], "a") == (True, None):
            return "skip"      # R1: an orphan is deleted by the next flush; an association row added for it is an invalid final state
        if a2 % 2:
            if t["obj"] in b["obj"].tags:
                return "skip"
            b["obj"].tags.append(t["obj"])
        else:
            if b["obj"] in t["obj"].bs:
                return "skip"
            t["obj"].bs.append(b["obj"])
        return "%d~%d" % (b["label"], t["label"])

    def op_tag_remove(self, a1, a2):
        b = self.pick(a1, lambda e: e["cls"] == "B" and self.usable(e) and len(e["obj"].tags) > 0)
        if b is None:
            return "skip"
        if "delete-orphan" in self.U["cfg"]["bs"] and OS.loaded(b["obj"], "a") == (True, None):
            return "skip"      # R1: an orphan is deleted by the next (auto)flush - also by the one a lazy load of T.bs starts with
        t = b["obj"].tags[a2 % len(b["obj"].tags)]
        how = (a2 // 8) % 8
        if how >= 5:
            if not all(self.member_ok(x) for x in b["obj"].tags):
                return "skip"
            if how == 5:
                del b["obj"].tags
            elif how == 6:
                b["obj"].tags = []
            else:
                b["obj"].tags.clear()
            return "%d!~all" % b["label"]
        if not self.member_ok(t):
            return "skip"
        if a2 % 2:
            b["obj"].tags.remove(t)
        else:
            t.bs.remove(b["obj"])
        return "%d!~" % b["label"]

    def _ancestors(self, n):
        """ancestors through the current parent links and through links removed since the last flush: the unit of work orders a row
        after its old *and* its new parent, so reversing an edge within one flush is the documented 'mutually dependent rows' case
        (CircularDependencyError unless post_update is configured) - not generated"""
        seen, todo = [], [n]
        insp = self.m["inspect"]
        while todo:
            x = todo.pop()
            if x is None or any(x is y for y in seen):
                continue
            seen.append(x)
            ok, p = OS.loaded(x, "parent")
            todo.append(p if ok else x.parent)
            if OS.state_of(x) in ("persistent", "pending"):
                todo.extend(y for y in (insp(x).attrs["parent"].history.deleted or ()) if y is not None)
        return seen

    def op_node_parent(self, a1, a2):
        n = self.pick(a1, lambda e: e["cls"] == "Node" and self.usable(e))
        if n is None:
            return "skip"
        if a2 % 4 == 0:
            how = (a2 // 4) % 4
            if how == 0 and OS.loaded(n["obj"], "parent")[0]:
                del n["obj"].parent
                return "%d^del" % n["label"]
            if how == 1 and OS.loaded(n["obj"], "children")[0] and all(self.member_ok(x) for x in n["obj"].children):
                del n["obj"].children
                return "%d.children del" % n["label"]
            if how == 2 and all(self.member_ok(x) for x in n["obj"].children):
                n["obj"].children = list(reversed(n["obj"].children))[:-1]      # replacement that keeps all but one, reordered
                return "%d.children:=" % n["label"]
            n["obj"].parent = None
            return "%d^None" % n["label"]
        p = self.pick(a2, lambda e: e["cls"] == "Node" and self.usable(e) and e is not n)
        if p is None or n["obj"] in self._ancestors(p["obj"]):
            return "skip"
        if not self.pair_ok(p["obj"], n["obj"]) or not self.pair_ok(n["obj"], p["obj"]):
            return "skip"
        before_members = self.members()
        if a2 % 2:
            n["obj"].parent = p["obj"]
        else:
            if n["obj"] in p["obj"].children:
                return "skip"
            p["obj"].children.append(n["obj"])
        if self.in_session(n["obj"]) or self.in_session(p["obj"]):
            self.check_add_cascade(p["obj"] if self.in_session(p["obj"]) else n["obj"], before_members)
        return "%d^%d" % (n["label"], p["label"])

    def op_follow(self, a1, a2):
        n = self.pick(a1, lambda e: e["cls"] == "Node" and self.usable(e))
        q = self.pick(a2, lambda e: e["cls"] == "Node" and self.usable(e) and e is not n)
        if n is None or q is None or q["obj"] in n["obj"].follows:
            return "skip"
        if not self.pair_ok(n["obj"], q["obj"]) or not self.pair_ok(q["obj"], n["obj"]):
            return "skip"
        n["obj"].follows.append(q["obj"])
        if a2 % 3 == 0 and n["obj"] not in q["obj"].follows:
            q["obj"].follows.append(n["obj"])          # mutual link
        return "%d>%d" % (n["label"], q["label"])

    def op_unfollow(self, a1, a2):
        n = self.pick(a1, lambda e: e["cls"] == "Node" and self.usable(e) and len(e["obj"].follows) > 0)
        if n is None:
            return "skip"
        q = n["obj"].follows[a2 % len(n["obj"].follows)]
        if (a2 // 4) % 4 == 3:
            if not all(self.member_ok(x) for x in n["obj"].follows):
                return "skip"
            if a2 % 2:
                del n["obj"].follows
            else:
                n["obj"].follows[:] = []
            return "%d!>all" % n["label"]
        if not self.member_ok(q):
            return "skip"
        if a2 % 2:
            n["obj"].follows.remove(q)
        else:
            q.followed_by.remove(n["obj"])
        return "%d!>" % n["label"]

    def op_set_p(self, a1, a2):
        pa = self.pick(a1, lambda e: e["cls"] in ("A", "A2") and self.usable(e))
        if pa is None:
            return "skip"
        self.steal_note = False
        self.unloaded_note = False
        if a2 % 13 == 5 and OS.state_of(pa["obj"]) == "persistent" and not self.cfg.get("o2o_steal"):
            # net-zero assignments on the one-to-one (deferred-history) side: the value the row already has is assigned to the unloaded
            # attribute, or the loaded value is taken away and put back before the flush: no net change on either side
            ao = pa["obj"]
            ok, cur = OS.loaded(ao, "p")
            if not ok:
                apk = OS.pk_of(ao)
                cols = self.U["tables"]["p"]
                mine = [e for e in self.entries(self.of("P")) if self.usable(e) and OS.state_of(e["obj"]) == "persistent" and
                        (self.prev_tables["p"].get(OS.pk_of(e["obj"])) or (None,) * 3)[cols.index("a_id")] == apk]
                if not mine or self.session.dirty or self.session.new or self.session.deleted:
                    return "skip"
                ao.p = mine[0]["obj"]
                return "%d.p=same(unloaded)" % pa["label"]
            if cur is None or not self.member_ok(cur):
                return "skip"
            ao.p = None
            ao.p = cur
            return "%d.p=None,back" % pa["label"]
        if OS.state_of(pa["obj"]) == "persistent" and not OS.loaded(pa["obj"], "p")[0]:
            # KF-C37-2: assigning the many-to-one side (A.p, no active_history) while its previous value is not loaded cannot tell the
            # previous member, whose loaded P.a keeps pointing here.  Same rule as op_set_parent: applications read the reference first,
            # so does the harness - unless the run opts in to exercising the known findings (o2o_steal), which ends the history there.
            if self.cfg.get("o2o_steal"):
                self.unloaded_note = True
            elif not self.cfg.get("autoflush", True):
                # without autoflush the read would load the database's (possibly stale) value over pending in-memory changes of the
                # other side; that is the documented effect of autoflush=False, not backref behaviour - not generated
                return "skip"
            else:
                pa["obj"].p
        if a2 % 3 == 0:
            ok, cur = OS.loaded(pa["obj"], "p")
            if ok and cur is not None and not self.member_ok(cur):
                return "skip"
            if (a2 // 3) % 3 == 1 and ok:
                del pa["obj"].p
                return "%d.p del" % pa["label"]
            if (a2 // 3) % 3 == 2 and ok and cur is not None and OS.loaded(cur, "a")[0]:
                del cur.a
                return "%d.p.a del" % pa["label"]
            pa["obj"].p = None
            return "%d.p=None" % pa["label"]
        p = self.pick(a2, lambda e: e["cls"] == "P" and self.usable(e))
        if p is None:
            return "skip"
        if not self.pair_ok(pa["obj"], p["obj"]) or not self.pair_ok(p["obj"], pa["obj"]):
            return "skip"
        before_members = self.members()
        if self.cfg.get("o2o_steal"):
            owners = [x for x in self.entries(self.of("A", "A2")) if x["obj"] is not pa["obj"] and OS.loaded(x["obj"], "p")[1] is p["obj"]]
            ok, cur_p = OS.loaded(pa["obj"], "p")
            self.steal_note = bool(owners) or (ok and cur_p is not None and cur_p is not p["obj"])
        else:
            # KF-C37-1: re-assigning a one-to-one member that another loaded owner still refers to does not update that previous owner
            # (asserted by test_backref_mutations.py); unless the run opts in, the previous link is cleared explicitly first
            owners = [x for x in self.entries(self.of("A", "A2")) if x["obj"] is not pa["obj"] and OS.loaded(x["obj"], "p")[1] is p["obj"]]
            ok, cur_owner = OS.loaded(p["obj"], "a")
            if ok and cur_owner is not None and cur_owner is not pa["obj"] and not any(x["obj"] is cur_owner for x in owners):
                owners.append(self.by_id.get(id(cur_owner)) or {"obj": cur_owner, "retired": True})
            ok, cur_p = OS.loaded(pa["obj"], "p")
            if ok and cur_p is not None and cur_p is not p["obj"]:
                owners.append(pa)
            if any(not self.usable(x) for x in owners):
                return "skip"
            for x in owners:
                x["obj"].p = None
        if a2 % 2:
            pa["obj"].p = p["obj"]
        else:
            p["obj"].a = pa["obj"]
        if self.in_session(pa["obj"]) and a2 % 2:
            self.check_add_cascade(pa["obj"], before_members)
        return "%d.p=%d" % (pa["label"], p["label"])

    def op_set_k(self, a1, a2):
        """many-to-one A.k to the natural-key class K (declared on the inheritance base, passive_updates=False, no reverse side)"""
        pa = self.pick(a1, lambda e: e["cls"] in ("A", "A2") and self.usable(e))
        if pa is None:
            return "skip"
        if a2 % 4 == 0:
            if OS.state_of(pa["obj"]) == "persistent" and not OS.loaded(pa["obj"], "k")[0] and self.cfg.get("autoflush", True):
                pa["obj"].k
            pa["obj"].k = None
            return "%d.k=None" % pa["label"]
        k = self.pick(a2, lambda e: e["cls"] == "K" and self.usable(e))
        if k is None or not self.pair_ok(pa["obj"], k["obj"]):
            return "skip"
        before_members = self.members()
        pa["obj"].k = k["obj"]
        if self.in_session(pa["obj"]):
            self.check_add_cascade(pa["obj"], before_members)
        return "%d.k=%d" % (pa["label"], k["label"])

    def k_referrers_ok(self, ko, need_loaded):
        """rows of a that refer to this K: with need_loaded, every one of them must be an object of the session with A.k loaded (the ORM
        keeps referring rows in step with a primary key change only for objects it holds: passive_updates=False, no reverse side)"""
        pk = OS.pk_of(ko)
        cols = self.U["tables"]["a"]
        rows = [r[0] for r in self.prev_tables["a"].values() if r[cols.index("k_name")] == pk] if pk is not None else []
        held = {OS.pk_of(e["obj"]): e for e in self.entries(self.of("A", "A2")) if self.in_session(e["obj"])}
        if not need_loaded:
            return not rows and not any(OS.loaded(e["obj"], "k")[1] is ko for e in self.entries(self.of("A", "A2")))
        return all(r in held for r in rows)

    def label_refs(self, t):
        """nl rows and loaded Node.labels collections that refer to this T"""
        pk = OS.pk_of(t)
        rows = [r for r in self.prev_tables["nl"].values() if r[1] == pk] if pk is not None else []
        holders = [e for e in self.entries(self.of("Node")) if any(x is t for x in (OS.loaded(e["obj"], "labels")[1] or []))]
        return rows, holders

    def op_label(self, a1, a2):
        """Node.labels: many-to-many to T without a reverse side.  how 0/1: add, 2: remove, 3: remove the member and delete it in the
        same flush (valid: the association row goes with the removal)"""
        n = self.pick(a1, lambda e: e["cls"] == "Node" and self.usable(e))
        if n is None:
            return "skip"
        no = n["obj"]
        how = a2 % 4
        if how <= 1:
            t = self.pick(a2 // 4, lambda e: e["cls"] == "T" and self.usable(e))
            if t is None or not self.pair_ok(no, t["obj"]) or t["obj"] in no.labels:
                return "skip"
            before_members = self.members()
            no.labels.append(t["obj"])
            if self.in_session(no):
                self.check_add_cascade(no, before_members)
            return "%d#%d" % (n["label"], t["label"])
        if not no.labels:
            return "skip"
        t = no.labels[(a2 // 4) % len(no.labels)]
        if not self.member_ok(t):
            return "skip"
        if how == 2:
            no.labels.remove(t)
            return "%d!#" % n["label"]
        # remove + delete: every reference to t must be this one (rows and loaded collections), and t must be deletable otherwise
        rows, holders = self.label_refs(t)
        npk = OS.pk_of(no)
        if any(r[0] != npk for r in rows) or any(h is not n for h in holders) or OS.state_of(t) != "persistent" or t in self.session.deleted:
            return "skip"
        et = self.track(t)
        cands = [c for c in self.objs if c["obj"] is not None and OS.state_of(c["obj"]) == "persistent" and self.in_session(c["obj"])
                 and c["obj"] not in self.session.deleted and c["cls"] not in ("D", "BL")]
        no.labels.remove(t)
        self._label_delete = True
        try:
            res = self.op_delete(cands.index(et), 1) if et in cands else "skip"
        finally:
            self._label_delete = False
        if res == "skip":
            no.labels.append(t)
            return "skip"
        self.bump("probe:label_removed_and_deleted")
        return "%d!#del" % n["label"]

    def op_k_rename(self, a1, a2):
        k = self.pick(a1, lambda e: e["cls"] == "K" and self.usable(e))
        if k is None:
            return "skip"
        if not self.k_referrers_ok(k["obj"], True):
            return "skip"
        k["obj"].name = "k%d" % self._newid("K")
        return k["label"]

    def op_h_doc(self, a1, a2):
        h = self.pick(a1, lambda e: e["cls"] == "H" and self.usable(e))
        if h is None:
            return "skip"
        C = self.U["classes"]
        if a2 % 2:
            h["obj"].doc = None            # orphans the document (delete-orphan), whose blob goes with it (cascade all)
        else:
            d = C["D"](id=self._newid("D"), note="d%d" % a2)
            self.track(d, "D")
            before_members = self.members()
            h["obj"].doc = d
            if self.in_session(h["obj"]):
                self.check_add_cascade(h["obj"], before_members)
        return h["label"]

    def op_g_ops(self, a1, a2):
        """dictionary collection G.opts (attribute_keyed_dict on O.key, all+delete-orphan, backref O.g)"""
        C = self.U["classes"]
        how = a2 % 12
        g = self.pick(a1, lambda e: e["cls"] == "G" and self.usable(e))
        if how == 0 or g is None:
            if len(self.entries(self.of("G"))) >= 3:
                return "skip"
            go = C["G"](id=self._newid("G"), note="g%d" % a1)
            for j in range(1 + a1 % 3):
                o = C["O"](id=self._newid("O"), key="k%d" % j, val=a1 + j)
                self.track(o, "O")
                go.opts[o.key] = o
            self.track(go, "G")
            before_members = self.members()
            self.session.add(go)
            self.check_add_cascade(go, before_members)
            return "G"
        go = g["obj"]
        d = go.opts
        if not all(self.member_ok(x) for x in d.values()):
            return "skip"
        keys = sorted(d)
        key = keys[a1 % len(keys)] if keys else None
        before_members = self.members()
        if how in (1, 2):            # new member under a new or an existing key (replacement)
            k = "k%d" % (a1 % 4)
            o = C["O"](id=self._newid("O"), key=k, val=a2)
            self.track(o, "O")
            if how == 1:
                d[k] = o
            else:
                d.set(o) if hasattr(d, "set") else d.__setitem__(k, o)
            what = "[%s]=new" % k
        elif how == 3 and key is not None:
            d.pop(key)
            what = "pop(%s)" % key
        elif how == 4 and key is not None:
            del d[key]
            what = "del[%s]" % key
        elif how == 5 and keys:
            d.popitem()
            what = "popitem"
        elif how == 6:
            d.clear()
            what = "clear"
        elif how == 7:
            o = C["O"](id=self._newid("O"), key="u%d" % (a1 % 2), val=a2)
            self.track(o, "O")
            d.update({o.key: o})
            what = "update"
        elif how == 8:
            o = C["O"](id=self._newid("O"), key="k%d" % (a1 % 4), val=a2)
            self.track(o, "O")
            got = d.setdefault(o.key, o)
            if got is not o:
                self.by_id[id(o)]["retired"] = True
            what = "setdefault"
        elif how == 9 and key is not None:
            ent = self.by_id.get(id(d[key]))
            if ent is not None:       # (same bookkeeping as op_set: was the previous value known when the attribute was set)
                self.loaded_before_set.setdefault((ent["label"], "val"), OS.loaded(d[key], "val")[0] or
                                                  OS.state_of(d[key]) in ("transient", "pending"))
            d[key].val = a2          # change of a member's column
            what = "[%s].val" % key
        elif how == 10 and key is not None:
            # move a member to another G through the many-to-one side
            g2 = self.pick(a1 + 1, lambda e: e["cls"] == "G" and self.usable(e) and e is not g and OS.state_of(e["obj"]) != "transient")
            if g2 is None or d[key].key in g2["obj"].opts or OS.state_of(d[key]) == "pending":
                return "skip"
            if not all(self.member_ok(x) for x in g2["obj"].opts.values()):
                return "skip"
            d[key].g = g2["obj"]
            what = "move(%s)" % key
        elif how == 11:
            new = {}
            for j in range(a1 % 3):
                o = C["O"](id=self._newid("O"), key="r%d" % j, val=a2)
                self.track(o, "O")
                new[o.key] = o
            keep = [x for x in d.values()][: a1 % 2]
            for x in keep:
                new[x.key] = x
            if any(k in d and d[k] is not v for k, v in new.items()):
                # another object under a key the collection already holds.  With a reverse side (O.g) the assignment is refused half
                # way through: the outgoing member's reverse-side bookkeeping asks the *incoming* dict to drop it, and KeyFuncDict.remove
                # raises InvalidRequestError where list / set collections raise the ValueError / KeyError that
                # _CollectionAttributeImpl.pop() swallows.  What the objects look like afterwards is unspecified, so only the check that
                # owns the verdict (C37) generates it, and the history ends there.
                for v in new.values():
                    if v not in keep:
                        self.by_id[id(v)]["retired"] = True
                if "C37" not in self.case.get("stop_on", ()) or OS.state_of(go) != "persistent":
                    return "skip"
                try:
                    go.opts = new
                except self.m["exc"].InvalidRequestError as ex:
                    if "Can not remove" not in str(ex):
                        raise
                    self.V("C37", "dict_replace_same_key_refused", "G.opts = {key: new object} over a loaded dict collection that holds another "
                           "object under that key raised InvalidRequestError 'Can not remove ...: collection holds ... for key' "
                           "(the reverse side O.g asks the incoming dict to drop the outgoing member)")
                    return "refused"
                return "%d.opts replace(same key)" % g["label"]
            go.opts = new
            what = "replace"
        else:
            return "skip"
        if self.in_session(go):
            self.check_add_cascade(go, before_members)
        return "%d.opts %s" % (g["label"], what)

    def op_o_bounce(self, a1, a2):
        """C37, from the many-to-one side of the dict-based pair G.opts / O.g while the owner's collection is NOT loaded: the member is
        taken away and put back with no flush in between (a net-zero change queued on an unloaded collection), then the collection is
        read for the first time: it must hold what the rows say, the member included, and both sides must agree"""
        sess = self.session
        if sess.new or sess.dirty or sess.deleted:
            return "skip"
        e = self.pick(a1, lambda e: e["cls"] == "O" and OS.state_of(e["obj"]) == "persistent" and self.in_session(e["obj"]))
        if e is None:
            return "skip"
        o = e["obj"]
        with sess.no_autoflush:
            g = o.g
            if g is None or OS.state_of(g) != "persistent" or not self.in_session(g):
                return "skip"
            if OS.loaded(g, "opts")[0]:
                sess.expire(g, ["opts"])
            how = a2 % 3
            if how == 0:
                o.g = None
                o.g = g
            elif how == 1:
                del o.g
                o.g = g
            else:
                o.g = g            # assignment of the value it already has
            d = g.opts
            now = self.probe()
            cols = self.U["tables"]["o"]
            want = sorted(row[cols.index("key")] for row in now["o"].values() if row[cols.index("g_id")] == OS.pk_of(g))
            if sorted(d) != want or d.get(o.key) is not o:
                self.V("C37", "member_lost_from_unloaded_collection", "O.g was taken away and put back (variant %d) while G.opts was not loaded; "
                       "read afterwards the collection has keys %s, the rows say %s, the member is %s"
                       % (how, sorted(d), want, "there" if d.get(o.key) is o else "missing"))
            if o.g is not g:
                self.V("C37", "backref_out_of_sync", "O.g does not refer to the owner it was assigned (after o_bounce)")
        self.prev_tables = now
        self.bump("probe:bounce_on_unloaded_dict_collection")
        return "%d bounce%d" % (e["label"], how)

    def op_row_switch(self, a1, a2):
        """delete(obj) and add(a new object with the same primary key) before one flush: the unit of work turns the pair into an UPDATE
        of the row ("row switch"); afterwards the new object is persistent and the row carries its values"""
        sess = self.session
        before = {id(x) for x in sess.deleted}
        r = self.op_delete(a1 * 4 + 1, a2)          # (the validity rules of a delete apply)
        newly = [x for x in sess.deleted if id(x) not in before]
        if r == "skip" or len(newly) != 1:
            return r
        o = newly[0]
        e = self.by_id.get(id(o))
        if e is None or e["cls"] not in ("Node", "T", "A", "K") or OS.state_of(o) != "persistent":
            return r
        pk = OS.pk_of(o)
        # a row switch UPDATEs the columns the new object has values for and leaves the others as they are in the row (long-standing
        # behaviour, visible to the application only as attributes that load the old values).  A foreign key left behind that way is
        # a reference no object in the session stands for, so the row must not hold one
        tab = self.tab_of(e["cls"])
        own = self.prev_tables[tab].get(pk)
        if own is None or any(own[self.U["tables"][tab].index(c)] is not None for c in {"node": ["parent_id"], "a": ["k_name"]}.get(tab, [])):
            return r
        C = self.U["classes"][e["cls"]]
        if e["cls"] == "K":
            new = C(name=pk, val=a2, memo="rs%d" % a2)
        elif e["cls"] == "A":
            new = C(id=pk, name="rs%d" % a2, data={"k": a2}, items=[a2])
        else:
            new = C(id=pk, name="rs%d" % a2)
        self.track(new, e["cls"])
        e["replaced"] = True               # its identity now belongs to the new object (same bookkeeping as row_replace)
        before_members = self.members()
        sess.add(new)
        self.check_add_cascade(new, before_members)
        self.bump("probe:row_switch")
        return "%s + new %s#%s" % (r, e["cls"], pk)

    def op_q_ops(self, a1, a2):
        """unidirectional delete-orphan one-to-many Q.rs"""
        C = self.U["classes"]
        how = a2 % 4
        q = self.pick(a1, lambda e: e["cls"] == "Q" and self.usable(e))
        if how == 0 or q is None:
            if len(self.entries(self.of("Q"))) >= 3:
                return "skip"
            qo = C["Q"](id=self._newid("Q"), note="q%d" % a1)
            for j in range(1 + a1 % 2):
                r = C["R"](id=self._newid("R"), note="r%d" % j)
                self.track(r, "R")
                qo.rs.append(r)
            self.track(qo, "Q")
            before_members = self.members()
            self.session.add(qo)
            self.check_add_cascade(qo, before_members)
            return "Q"
        if how == 1:
            r = C["R"](id=self._newid("R"), note="r%d" % a1)
            self.track(r, "R")
            before_members = self.members()
            q["obj"].rs.append(r)
            if self.in_session(q["obj"]):
                self.check_add_cascade(q["obj"], before_members)
            return "%d+=R" % q["label"]
        if how == 2 and len(q["obj"].rs) > 0:
            r = q["obj"].rs[a1 % len(q["obj"].rs)]
            if not self.member_ok(r):
                return "skip"
            q["obj"].rs.remove(r)
            self.removed_rs.append(r)
            if a1 % 2 and OS.state_of(q["obj"]) == "persistent" and q["obj"] not in self.session.deleted \
                    and all(OS.state_of(x) == "persistent" for x in q["obj"].rs):
                self.session.delete(q["obj"])       # remove-then-delete in one flush
            return "%d-=R" % q["label"]
        if how == 3 and OS.state_of(q["obj"]) == "persistent" and q["obj"] not in self.session.deleted:
            if any(OS.state_of(r) != "persistent" or r in self.session.deleted for r in q["obj"].rs):
                return "skip"       # R1: a pending child of a parent deleted in the same flush is an invalid final state
            self.session.delete(q["obj"])
            return "del Q%d" % q["label"]
        return "skip"

    def op_delete(self, a1, a2):
        e = self.pick(a1, lambda e: OS.state_of(e["obj"]) == "persistent" and self.in_session(e["obj"]) and e["obj"] not in self.session.deleted
                      and e["cls"] not in ("D", "BL") and not e.get("replaced"))
        if e is None:
            return "skip"
        o = e["obj"]
        # R1: nothing still points at the object through a relationship without delete cascade that would block it
        if e["cls"] in ("A", "A2") and not self.U["cfg"]["fk_nullable"] and "delete" not in self.U["cfg"]["bs"]:
            return "skip"
        if e["cls"] == "K" and not self.k_referrers_ok(o, False):
            return "skip"      # R1: A.k has no reverse side that could null the referring rows out
        if e["cls"] == "T" and not getattr(self, "_label_delete", False) and self.label_refs(o):
            return "skip"      # R1: Node.labels has no reverse side: association rows of a deleted T are only removed from the Node side
        # R1: the object to delete must not take part in any relationship change that has not been flushed yet (a child attached to
        # a parent that is deleted in the same flush, an association row added for a deleted object, ... are invalid final states)
        insp = self.m["inspect"]
        for x in self.entries():
            xo = x["obj"]
            for an in OS.rel_attrs(self.U, xo):
                if not OS.loaded(xo, an)[0]:
                    continue
                h = insp(xo).attrs[an].history
                added = [y for y in (h.added or ()) if y is not None]
                if (xo is o and added) or any(y is o for y in added):
                    return "skip"
                if xo is not o and OS.state_of(xo) in ("pending", "transient"):
                    cur = OS.loaded(xo, an)[1]
                    members = OS.members(cur)
                    if any(y is o for y in members):
                        return "skip"
        for an in OS.rel_attrs(self.U, o):
            ok, v = OS.loaded(o, an)
            members = OS.members(v) if ok else []
            if any(OS.state_of(k) in ("pending", "transient", "deleted", "detached") for k in members):
                # (a member already deleted in this transaction would be cascaded to - and deleted - a second time; with
                # expire_on_commit=False a stale collection can still hold a member whose row a committed transaction deleted)
                return "skip"
        doomed = [o] + self.closure(o, "delete")
        for x in self.entries():
            xo = x["obj"]
            if self.link_pending(xo) and (any(xo is d for d in doomed) or any(
                    OS.rel_of(self.U, xo, an)["kind"] == "m2o" and any(OS.loaded(xo, an)[1] is d for d in doomed)
                    for an in OS.rel_attrs(self.U, xo))):
                return "skip"
        self.session.delete(o)
        if a2 % 3 == 0 and e["cls"] == "Node":
            # delete a linked object in the same flush as well
            ok, fl = OS.loaded(o, "follows")
            for y in (fl or []):
                if OS.state_of(y) == "persistent" and self.in_session(y) and y not in self.session.deleted:
                    saved = self.session.deleted
                    self.op_delete_obj(y)
                    break
        return e["label"]

    def op_delete_obj(self, y):
        ey = self.track(y)
        idx = [k for k, q in enumerate(c for c in self.objs if c["obj"] is not None and OS.state_of(c["obj"]) == "persistent"
                                       and self.in_session(c["obj"]) and c["obj"] not in self.session.deleted and c["cls"] not in ("D", "BL"))
               if q is ey]
        if idx:
            self.op_delete(idx[0], 1)

    def op_make_transient(self, a1, a2):
        """make_transient() of a detached object whose row is gone (it was deleted and the deletion committed, or it was expunged from
        the 'deleted' state), so that the application can add it again"""
        insp = self.m["inspect"]
        e = self.pick(a1, lambda e: OS.state_of(e["obj"]) == "detached" and insp(e["obj"]).was_deleted and not e.get("replaced")
                      and e["cls"] in ("K", "T", "Node", "M", "P", "Q", "G") and OS.pk_of(e["obj"]) is not None)
        if e is None or self.session.new or self.session.dirty or self.session.deleted:
            return "skip"
        pk = OS.pk_of(e["obj"])
        if pk in self.probe()[self.tab_of(e["cls"])] or self.txn_flushed:
            return "skip"
        o = e["obj"]
        for an in OS.rel_attrs(self.U, o):
            if OS.loaded(o, an)[0] and OS.members(OS.loaded(o, an)[1]):
                return "skip"
        self.m["make_transient"](o)
        if OS.state_of(o) != "transient":
            self.V("C35", "make_transient_state", "make_transient() left the object %s" % OS.state_of(o))
        e["retired"] = False
        e["expunged"] = False
        self.bump("probe:made_transient")
        return e["label"]

    def op_expunge(self, a1, a2):
        if self.session.dirty or self.session.new or self.session.deleted:
            return "skip"
        if self.cfg.get("expunge_midtxn") and self.txn_flushed and a2 % 2:
            # an object without relationships is expunged in the middle of a transaction that has flushed changes of it (the object is
            # then let go of by the application); the session must not keep or re-acquire it, whatever the transaction does next
            # (also an object the transaction has flushed as deleted: it is expunged from the 'deleted' state)
            e = self.pick(a1, lambda e: e["cls"] == "K" and OS.state_of(e["obj"]) in ("persistent", "deleted") and self.in_session(e["obj"])
                          and e["obj"] not in self.session.deleted and self.k_referrers_ok(e["obj"], False))
            if e is None:
                return "skip"
            self.session.expunge(e["obj"])
            e["expunged"] = True
            e["retired"] = True
            self.bump("probe:expunged_inside_transaction")
            return "%d midtxn" % e["label"]
        e = self.pick(a1, lambda e: OS.state_of(e["obj"]) in ("pending", "persistent") and self.in_session(e["obj"]) and
                      e["obj"] not in self.session.deleted)
        if e is None:
            return "skip"
        if self.session.dirty or self.session.new or self.session.deleted or self.txn_flushed or self.sp_stack:
            # relationship changes that involve an object which is no longer in the session "won't proceed" (documented warning, R2):
            # objects are only expunged from a session whose work is committed (an expunged object that the open transaction had
            # inserted or deleted is still rolled back with it, which the lifecycle vocabulary cannot express)
            return "skip"
        o = e["obj"]
        exp = self.closure(o, "expunge")
        group = {id(o)} | {id(x) for x in exp}
        # R2: the expunged group must not stay linked (in memory) with objects that remain in the session - later changes of such
        # links "won't proceed" at flush
        for x in self.entries(lambda q: self.in_session(q["obj"])):
            xo = x["obj"]
            for an in OS.rel_attrs(self.U, xo):
                ok, v = OS.loaded(xo, an)
                members = OS.members(v) if ok else []
                for y in members:
                    if (id(xo) in group) != (id(y) in group):
                        return "skip"
        tabs = self.prev_tables
        pk = OS.pk_of(o)
        own = tabs[self.tab_of(e["cls"])].get(pk) if pk is not None else None
        fkcols = {"b": ["a_id"], "p": ["a_id"], "node": ["parent_id"], "r": ["q_id"], "h": ["d_id"], "d": ["bl_id"], "o": ["g_id"],
                  "a": ["k_name"]}.get(self.tab_of(e["cls"]), [])
        if own is not None and any(own[self.U["tables"][self.tab_of(e["cls"])].index(c)] is not None for c in fkcols):
            return "skip"
        if pk is not None and any(pk in (r[0], r[1]) for t2 in ("b_t", "nf") for r in tabs[t2].values()
                                  if (t2 == "nf" and e["cls"] == "Node") or (t2 == "b_t" and e["cls"] in ("B", "T"))):
            return "skip"
        if pk is not None and any((e["cls"] == "Node" and r[0] == pk) or (e["cls"] == "T" and r[1] == pk) for r in tabs["nl"].values()):
            return "skip"
        if e["cls"] in ("D", "BL", "R", "B", "P", "O") or (pk is not None and any(
                row[cols.index(col)] == pk for (t2, col) in (("b", "a_id"), ("p", "a_id"), ("node", "parent_id"), ("r", "q_id"), ("h", "d_id"), ("d", "bl_id"),
                                                             ("o", "g_id"), ("a", "k_name"))
                for cols in [self.U["tables"][t2]] for row in tabs[t2].values()
                if {"b": ("A", "A2"), "p": ("A", "A2"), "node": ("Node",), "r": ("Q",), "h": ("D",), "d": ("BL",), "o": ("G",), "a": ("K",)}[t2].__contains__(e["cls"]))):
            return "skip"       # rows elsewhere still refer to it: unloaded relationships would tie the detached object to the session
        self.session.expunge(o)
        e["expunged"] = True
        for x in exp:
            ex = self.by_id.get(id(x))
            if ex is not None:
                ex["expunged"] = True
            if self.in_session(x):
                self.V("C39", "expunge_cascade_missed", "expunge() left %s in the session although it is reachable through an expunge cascade "
                       "(universe %s)" % (type(x).__name__, self.cfg["universe"]))
        return e["label"]

    def op_expunge_owner(self, a1, a2):
        """C39: an owner is expunged in the middle of a transaction in which one of the members of its loaded collection has been deleted
        and flushed (the member is still listed: the relationship has no reverse side that would have removed it).  The expunge cascade
        reaches it like every other member: it leaves the session, and the rollback that follows does not bring it back into it"""
        sess = self.session
        if sess.new or sess.dirty or sess.deleted or self.sp_stack or self.txn_flushed:
            return "skip"      # (everything persistent is committed: the rollback below takes back the one DELETE and nothing else)
        q = self.pick(a1, lambda e: e["cls"] == "Q" and OS.state_of(e["obj"]) == "persistent" and self.in_session(e["obj"]))
        if q is None:
            return "skip"
        qo = q["obj"]
        members = [r for r in qo.rs]
        if not members or not all(OS.state_of(r) == "persistent" and self.in_session(r) for r in members):
            return "skip"
        r = members[a2 % len(members)]
        sess.delete(r)
        sess.flush()
        self.txn_flushed = True
        if OS.state_of(r) != "deleted" or not any(x is r for x in OS.loaded(qo, "rs")[1] or ()):
            return "skip"
        sess.expunge(qo)
        group = [qo] + members
        for x in group:
            ex = self.by_id.get(id(x))
            if ex is not None:
                ex["expunged"] = True
                ex["retired"] = True
        left = [x for x in group if self.in_session(x)]
        if left:
            self.V("C39", "expunge_cascade_missed", "expunge() of a Q left %s in the session although Q.rs cascades expunge (a member in the "
                   "'deleted' state, flushed in the open transaction, is a member like any other)"
                   % ", ".join("%s(%s)" % (type(x).__name__, OS.state_of(x)) for x in left))
        self.op_rollback(0, 0)
        back = [x for x in group if self.in_session(x) or self.m["inspect"](x).key in sess.identity_map and sess.identity_map[self.m["inspect"](x).key] is x]
        if back:
            self.V("C39", "expunged_object_reacquired", "after expunge() of a Q and its members and a rollback, the session holds %s again"
                   % ", ".join(type(x).__name__ for x in back))
        self.bump("probe:owner_expunged_with_deleted_member")
        return "%d expunged with a deleted member" % q["label"]

    def closure(self, o, cascade_name):
        """objects reachable from o through relationships carrying the given cascade, following *loaded* values only"""
        seen, todo, out = {id(o)}, [o], []
        while todo:
            x = todo.pop()
            for an in OS.rel_attrs(self.U, x):
                r = OS.rel_of(self.U, x, an)
                if not getattr(r["cascade"], cascade_name.replace("-", "_"), False):
                    continue
                ok, v = OS.loaded(x, an)
                if not ok or v is None:
                    continue
                for y in OS.members(v):
                    if id(y) not in seen:
                        seen.add(id(y))
                        out.append(y)
                        todo.append(y)
        return out

    def check_add_cascade(self, o, before_members):
        if not self.in_session(o):
            return
        for x in self.closure(o, "save-update"):
            if not self.in_session(x) and OS.state_of(x) in ("transient",):
                self.V("C39", "save_update_cascade_missed", "%s reachable through a save-update cascade from an object in the session was not "
                       "added (universe %s)" % (type(x).__name__, self.cfg["universe"]))
        reach = {id(x) for x in self.closure(o, "save-update")} | {id(o)}
        for e in self.entries():
            x = e["obj"]
            if id(x) not in before_members and self.in_session(x) and id(x) not in reach:
                # something else joined the session: must be reachable from some member through save-update
                ok = any(id(x) in {id(y) for y in self.closure(mm["obj"], "save-update")} for mm in self.entries(lambda q: id(q["obj"]) in before_members))
                if not ok:
                    self.V("C39", "object_added_without_cascade", "%s joined the session although no save-update cascade reaches it"
                           % type(x).__name__)

    # ---- flush / transactions
    def pre_flush_expectations(self):
        """computed from the in-memory state right before the flush"""
        exp = {"orphans": [], "history": []}
        for e in self.entries():
            o = e["obj"]
            if not self.in_session(o):
                continue
            st = OS.state_of(o)
            # delete-orphan: a persistent object that lost its delete-orphan parent and was not re-associated is deleted at flush
            if e["cls"] == "B" and "delete-orphan" in self.U["cfg"]["bs"] and st == "persistent":
                ok, par = OS.loaded(o, "a")
                if ok and par is None and o not in self.session.deleted:
                    exp["orphans"].append(o)
            if e["cls"] == "O" and st == "persistent":
                ok, par = OS.loaded(o, "g")
                if ok and par is None and o not in self.session.deleted:
                    exp["orphans"].append(o)
            if e["cls"] == "D" and st == "persistent":
                holders = [h["obj"] for h in self.entries(self.of("H")) if self.in_session(h["obj"]) and OS.loaded(h["obj"], "doc") == (True, o)
                           and h["obj"] not in self.session.deleted]
                known_unloaded = any(self.in_session(h["obj"]) and not OS.loaded(h["obj"], "doc")[0] for h in self.entries(self.of("H")))
                if not holders and not known_unloaded and o not in self.session.deleted:
                    exp["orphans"].append(o)
        # the converse: a persistent object that a live parent holds in its loaded collection / reference right now, and that nobody
        # asked to delete, is not an orphan whatever happened to it in a scope that has since been rolled back
        exp["held"] = []
        for pcls, an, ccls in ((("Q",), "rs", "R"), (("H",), "doc", "D"), (("G",), "opts", "O"), (("A", "A2"), "bs", "B")):
            for pe in self.entries(lambda x: x["cls"] in pcls):
                po = pe["obj"]
                if not self.in_session(po) or po in self.session.deleted or OS.state_of(po) not in ("persistent", "pending"):
                    continue
                ok, v = OS.loaded(po, an)
                if not ok:
                    # not loaded: the one-directional ones can have no pending change, so the database says who the members are;
                    # for the others the child's own loaded reference does
                    ppk = OS.pk_of(po)
                    if OS.state_of(po) != "persistent" or ppk is None:
                        continue
                    if an == "rs":
                        pks = {k for k, row in self.prev_tables["r"].items() if row[self.U["tables"]["r"].index("q_id")] == ppk}
                        v = [x["obj"] for x in self.entries(self.of("R")) if OS.pk_of(x["obj"]) in pks]
                    elif an == "doc":
                        row = self.prev_tables["h"].get(ppk)
                        dpk = row[self.U["tables"]["h"].index("d_id")] if row else None
                        v = [x["obj"] for x in self.entries(self.of("D")) if dpk is not None and OS.pk_of(x["obj"]) == dpk]
                    else:
                        back = {"opts": "g", "bs": "a"}[an]
                        v = [x["obj"] for x in self.entries(self.of(ccls)) if OS.loaded(x["obj"], back) == (True, po)]
                back = {"opts": "g", "bs": "a"}.get(an)
                for c in OS.members(v):
                    if c is not None and OS.state_of(c) == "persistent" and self.in_session(c) and c not in self.session.deleted:
                        if back and OS.loaded(c, back)[0] and OS.loaded(c, back)[1] is not po:
                            continue       # the two sides disagree: the orphan rule above, which reads the member's own side, governs
                        exp["held"].append((c, ccls, pe["label"], an))
        return exp

    def op_flush(self, a1, a2):
        return self._flush("flush")

    def _flush(self, how):
        sess = self.session
        had_changes = bool(sess.new or sess.dirty or sess.deleted)
        exp = self.pre_flush_expectations()
        hist = self.collect_history()
        self.pre_pk = {e["label"]: OS.pk_of(e["obj"]) for e in self.entries() if self.in_session(e["obj"])}
        del self.sql[:]
        if how == "flush":
            sess.flush()
        elif how == "commit":
            sess.commit()
        if had_changes:
            self.bump("probe:flush_with_changes")
            self.txn_flushed = how != "commit"
        self.adopt()
        now = self.probe(committed=(how == "commit"))
        self.check_rows(now, how)
        self.check_orphans(exp, now)
        self.check_history_vs_updates(hist)
        self.check_dropped(now)
        self.prev_tables = now
        self.loaded_before_set.clear()
        return how

    def op_commit(self, a1, a2):
        n_sp = len(self.sp_stack)
        r = self._flush("commit")
        self.txn_flushed = False
        self.sp_stack = []
        self.check_no_stale(self.probe(committed=True), "commit")
        if self.case.get("fresh_session_check", True) and not self.viol:
            self.check_reload()
        return r

    def op_rollback(self, a1, a2):
        snap = self.sp_stack[0] if self.sp_stack else None
        self.session.rollback()
        self.after_rollback()
        return "rollback"

    def after_rollback(self):
        self.txn_flushed = False
        self.sp_stack = []
        self.removed_rs = []
        self.loaded_before_set.clear()
        self.expect_after_drop = []
        now = self.probe(committed=True)
        self.prev_tables = now
        self.check_no_stale(now, "rollback")
        # objects must agree with the database: persistent <=> row exists
        for e in self.entries():
            o = e["obj"]
            if not self.in_session(o) or e.get("replaced"):
                continue       # (replaced: its row was deleted behind the session's back; a rollback brings the object back without a row)
            st = OS.state_of(o)
            pk = OS.pk_of(o)
            tab = self.tab_of(e["cls"])
            if st == "persistent" and pk is not None and pk not in now[tab]:
                self.V("C33", "persistent_without_row", "after rollback %s #%s is persistent in the session but has no row" % (e["cls"], pk))
            if st in ("pending", "deleted"):
                self.V("C33", "state_survived_rollback", "after rollback %s is still %s" % (e["cls"], st))
                # (the same fact in the vocabulary of C35: rollback is documented to take pending -> transient, deleted -> persistent)
                self.V("C35", "rollback_transition_missing", "after rollback %s is still %s: the documented transition out of that state did "
                       "not happen" % (e["cls"], st))
                if st == "deleted":
                    # (and for C34: the row is back, the session still owns this object, but the identity map does not list it - the
                    # next load of the row creates a second object for the identity)
                    self.V("C34", "object_of_session_outside_identity_map", "after rollback %s #%s still belongs to the session in the "
                           "'deleted' state, outside the identity map, while its row exists" % (e["cls"], pk))
        for e in self.entries():
            o = e["obj"]
            was = getattr(self, "before_states", {}).get(e["label"])
            if was and was[1] and was[0] in ("pending", "persistent") and not self.in_session(o) and OS.state_of(o) == "detached":
                pk = OS.pk_of(o)
                if pk is not None and pk not in now[self.tab_of(e["cls"])]:
                    self.V("C33", "added_object_not_transient_after_rollback", "%s #%s was added in the rolled back transaction (it has no "
                           "row) but is 'detached', carrying an identity key, instead of transient" % (e["cls"], pk))

    def tab_of(self, cls):
        return {"A": "a", "A2": "a", "B": "b", "T": "t", "Node": "node", "K": "k", "P": "p", "BL": "bl", "D": "d", "H": "h", "Q": "q", "R": "r", "G": "g", "O": "o", "M": "m"}[cls]

    def op_begin_nested(self, a1, a2):
        if len(self.sp_stack) >= 3:
            return "skip"
        if self.session.new or self.session.dirty or self.session.deleted:
            self.txn_flushed = True         # begin_nested() flushes
        self.session.begin_nested()
        if self.session.new or self.session.dirty or self.session.deleted:
            # documented: begin_nested() flushes all pending state first, whatever the autoflush setting, so that the SAVEPOINT captures it
            self.V("C33", "begin_nested_did_not_flush", "after begin_nested() the session still lists new=%d dirty=%d deleted=%d (autoflush=%s)"
                   % (len(self.session.new), len(self.session.dirty), len(self.session.deleted), self.cfg.get("autoflush", True)))
        snap = {"states": {e["label"]: (OS.state_of(e["obj"]), self.in_session(e["obj"])) for e in self.entries()},
                "tables": self.probe(), "trans": self.session.get_nested_transaction()}
        self.sp_stack.append(snap)
        self.prev_tables = snap["tables"]
        return "sp%d" % len(self.sp_stack)

    def op_sp_commit(self, a1, a2):
        if not self.sp_stack:
            return "skip"
        exp = self.pre_flush_expectations()
        snap = self.sp_stack.pop()
        snap["trans"].commit()
        now = self.probe()
        self.check_rows(now, "savepoint commit")
        self.prev_tables = now
        return "sp_commit"

    def op_sp_rollback(self, a1, a2):
        if not self.sp_stack:
            return "skip"
        if self.cfg.get("sp_outer") and len(self.sp_stack) >= 2 and a2 % 3 == 0:
            # rollback of an *enclosing* savepoint while inner ones are still open: everything since that savepoint is undone
            k = a1 % (len(self.sp_stack) - 1)
            snap = self.sp_stack[k]
            del self.sp_stack[k:]
            self.bump("probe:outer_savepoint_rolled_back_with_inner_open")
        else:
            snap = self.sp_stack.pop()
        snap["trans"].rollback()
        self.removed_rs = []
        self.loaded_before_set.clear()
        self.expect_after_drop = []
        now = self.probe()
        self.prev_tables = now
        if now != snap["tables"]:
            self.V("C33", "savepoint_rollback_changed_rows", "rows after ROLLBACK TO SAVEPOINT differ from the rows at the savepoint: %s"
                   % self.diff_tables(snap["tables"], now))
        # membership and state return to what they were at the savepoint
        for e in self.entries():
            was = snap["states"].get(e["label"])
            o = e["obj"]
            st, ins = OS.state_of(o), self.in_session(o)
            if was is None:
                if ins and st in ("pending", "persistent") and e["label"] >= 0 and not self.loaded_after(e, snap):
                    pk = OS.pk_of(o)
                    if pk is not None and pk not in now[self.tab_of(e["cls"])]:
                        self.V("C33", "new_object_survived_savepoint_rollback", "%s created after the savepoint is still %s in the session after "
                               "its rollback, without a row" % (e["cls"], st))
                continue
            wst, wins = was
            if wst == "persistent" and wins and st != "persistent" and OS.pk_of(o) in now[self.tab_of(e["cls"])]:
                self.V("C33", "state_not_restored", "%s was persistent at the savepoint, is %s after its rollback although its row exists"
                       % (e["cls"], st))
            if wst in ("transient",) and st in ("pending", "persistent"):
                self.V("C33", "state_not_restored", "%s was transient at the savepoint but is %s after its rollback" % (e["cls"], st))
        self.check_no_stale(now, "savepoint rollback")
        return "sp_rollback"

    def loaded_after(self, e, snap):
        return False

    def op_close(self, a1, a2):
        if self.cfg.get("close_midtxn") and a2 % 2 and not (self.session.new or self.session.dirty or self.session.deleted):
            # close() in the middle of a transaction that has flushed work (inserts, updates, deletes): the transaction is rolled back
            # and every object leaves the session (the application lets go of all of them: their values are those of the lost
            # transaction)
            if a2 % 4 == 1:
                # expunge_all() instead: every object leaves, the session and its transaction go on (and end later)
                self.session.expunge_all()
                for e in self.objs:
                    e["retired"] = True
                self.bump("probe:expunge_all_inside_transaction")
                return "expunge_all midtxn"
            self.session.close()
            for e in self.objs:
                e["retired"] = True
            self.new_session()
            self.after_rollback()
            self.bump("probe:closed_inside_transaction")
            return "close midtxn"
        if self.session.new or self.session.dirty or self.session.deleted or self.txn_flushed or self.sp_stack or any(
                OS.state_of(e["obj"]) == "deleted" for e in self.entries()):
            return "skip"      # closing with work in flight is a rollback (detached objects would keep the rolled-back values);
            #                    objects in the 'deleted' state would be left in limbo
        self.session.close()
        self.new_session()
        self.prev_tables = self.probe(committed=True)
        self.expect_after_drop = []
        return "close"

    # ---- loading
    def op_requery(self, a1, a2):
        names = ["A", "B", "T", "Node", "K", "P", "H", "G", "O", "Q"]
        cn = names[a1 % len(names)]
        C = self.U["classes"][cn]
        pend_before = [e for e in self.entries() if self.in_session(e["obj"]) and OS.state_of(e["obj"]) == "pending"]
        i0 = len(self.sql)
        res = self.session.execute(self.m["select"](C)).scalars().all()
        self.check_autoflush("query", pend_before, i0)
        now = self.probe()
        pks = sorted(OS.pk_of(o) for o in res)
        want = sorted(now[self.tab_of(cn)].keys())
        if pks != want:
            self.V("C47" if self.cfg.get("autoflush", True) else "C30", "query_result_differs_from_rows",
                   "select(%s) returned identities %s, the table (seen by the session's transaction) holds %s" % (cn, pks, want))
        for o in res:
            self.check_same_identity(o, "query")
        self.prev_tables = now
        return "%s:%d" % (cn, len(res))

    def op_stream(self, a1, a2):
        """C47: a query with a post-load loader (selectinload) consumed as a stream (yield_per=1).  The application makes a change
        between two batches; the loader query of the next batch is a query like any other and must see it (autoflush)"""
        if not self.cfg.get("autoflush", True) or self.sp_stack and False:
            return "skip"
        from sqlalchemy.orm import selectinload
        sess = self.session
        C = self.U["classes"]
        A, B = C["A"], C["B"]
        if len(self.entries(self.of("B"))) >= 8:
            return "skip"
        stmt = self.m["select"](A).options(selectinload(A.bs)).order_by(A.id).execution_options(yield_per=1)
        pend_before = [e for e in self.entries() if self.in_session(e["obj"]) and OS.state_of(e["obj"]) == "pending"]
        i0 = len(self.sql)
        res = sess.execute(stmt).scalars()
        it = iter(res)
        first = next(it, None)
        if first is None:
            return "empty"
        self.check_autoflush("query", pend_before, i0)
        now = self.probe()
        insp = self.m["inspect"]
        later = []
        for pk in sorted(now["a"]):
            if pk <= OS.pk_of(first):
                continue
            key = self.m["identity_key"](A, pk) if "identity_key" in self.m else None
            held = [e["obj"] for e in self.entries(lambda e: e["cls"] in ("A", "A2")) if self.in_session(e["obj"]) and OS.pk_of(e["obj"]) == pk]
            if held and (OS.loaded(held[0], "bs")[0] or held[0] in sess.deleted or OS.state_of(held[0]) != "persistent"):
                continue       # a collection that is already loaded is not loaded again by the query
            later.append(pk)
        if not later:
            res.close()
            self.adopt()
            return "stream:nolater"
        tpk = later[a1 % len(later)]
        b = B(id=self._newid("B"), val=a2, a_id=tpk)       # attached through the column: no collection is touched in memory
        self.track(b, "B")
        sess.add(b)
        n = len(self.sql)
        rest = list(it)
        ran_loader = any(st.lstrip().upper().startswith("SELECT") for st, _p in self.sql[n:])
        if ran_loader:
            self.check_autoflush("post-load query of a streamed result", [self.by_id[id(b)]], n)
        else:
            sess.flush()
        now = self.probe()
        for a in rest:
            if OS.pk_of(a) == tpk and OS.loaded(a, "bs")[0]:
                got = sorted(OS.pk_of(x) for x in a.bs)
                want = sorted(k for k, row in now["b"].items() if row[1] == tpk)
                if got != want:
                    self.V("C47", "postload_collection_differs_from_rows", "A #%s.bs loaded by selectinload while streaming holds %s, the "
                           "session's transaction has %s (a B for it was pending when the batch was loaded)" % (tpk, got, want))
        self.adopt()
        b.a                 # both sides loaded from here on
        self.txn_flushed = True
        self.prev_tables = now
        self.bump("probe:stream_change_between_batches")
        return "stream:%d+B" % tpk

    def check_autoflush(self, what, pend_before, i0=0):
        if not self.cfg.get("autoflush", True):
            return
        if not any(st.lstrip().upper().startswith("SELECT") for st, _p in self.sql[i0:]):
            return      # the read was answered from memory (identity map, NULL foreign key): nothing was "executed", nothing to flush for
        # C47 "exactly as if flush had been called first": an explicit flush right after the read has nothing left to write
        n = len(self.sql)
        self.session.flush()
        dml = [st for st, _p in self.sql[n:] if st.lstrip().split(" ", 1)[0] in ("INSERT", "UPDATE", "DELETE")]
        if dml:
            self.V("C47", "read_did_not_see_pending_changes", "%s with autoflush on emitted SQL but left changes unflushed: a flush right "
                   "after it wrote %s" % (what, "; ".join(d[:50] for d in dml[:3])))
        left = [e for e in pend_before if self.in_session(e["obj"]) and OS.state_of(e["obj"]) == "pending"]
        if left or self.session.deleted:
            self.V("C47", "autoflush_skipped", "%s with autoflush on left %d pending / %d deleted objects unflushed"
                   % (what, len(left), len(self.session.deleted)))

    def op_get(self, a1, a2):
        e = self.pick(a1, lambda e: OS.pk_of(e["obj"]) is not None)
        if e is None:
            return "skip"
        C = self.U["classes"]["A" if e["cls"] == "A2" else e["cls"]]
        pk = OS.pk_of(e["obj"])
        insp = self.m["inspect"](e["obj"])
        present = (self.in_session(e["obj"]) and OS.state_of(e["obj"]) == "persistent" and not insp.expired_attributes
                   and e["obj"] not in self.session.deleted)
        pend_before = [x for x in self.entries() if self.in_session(x["obj"]) and OS.state_of(x["obj"]) == "pending"]
        del self.sql[:]
        got = self.session.get(C, pk)
        if present:
            if got is not e["obj"]:
                self.V("C34", "get_returned_other_object", "Session.get() returned a different object than the one the session holds for %s #%s"
                       % (e["cls"], pk))
            if self.sql:
                self.V("C34", "get_emitted_sql", "Session.get() of a present, unexpired identity emitted SQL: %s" % self.sql[0][0][:80])
        elif got is not None:
            self.check_same_identity(got, "get")
        if not present and OS.state_of(e["obj"]) != "pending":
            absent_in_map = self.m["inspect"](e["obj"]).key not in self.session.identity_map if self.m["inspect"](e["obj"]).key else True
            if absent_in_map:
                self.check_autoflush("get of an absent identity", pend_before, 0)
        return "%s#%s" % (e["cls"], pk)

    def op_lazy(self, a1, a2):
        e = self.pick(a1, lambda e: OS.state_of(e["obj"]) == "persistent" and self.in_session(e["obj"]) and OS.rel_attrs(self.U, e["obj"]))
        if e is None:
            return "skip"
        attrs = OS.rel_attrs(self.U, e["obj"])
        an = attrs[a2 % len(attrs)]
        was_loaded = OS.loaded(e["obj"], an)[0]
        if not was_loaded and not self.cfg.get("autoflush", True) and (self.session.new or self.session.dirty or self.session.deleted):
            return "skip"      # R3: with autoflush off a load shows the last flushed state, not the pending changes (documented)
        pend_before = [x for x in self.entries() if self.in_session(x["obj"]) and OS.state_of(x["obj"]) == "pending"]
        i0 = len(self.sql)
        v = getattr(e["obj"], an)
        if not was_loaded:
            self.check_autoflush("lazy load", pend_before, i0)
        for o in OS.members(v):
            self.check_same_identity(o, "lazy load")
        return "%d.%s" % (e["label"], an)

    def check_same_identity(self, o, how):
        key = self.m["inspect"](o).key
        if key is None:
            return
        for e in self.entries():
            x = e["obj"]
            if x is not o and not e.get("replaced") and self.in_session(x) and self.m["inspect"](x).key == key and \
                    OS.state_of(x) in ("persistent", "deleted"):
                self.V("C34", "two_objects_one_identity", "%s returned a second object for identity %s" % (how, key[1:2]))

    def op_expire(self, a1, a2):
        e = self.pick(a1, lambda e: OS.state_of(e["obj"]) == "persistent" and self.in_session(e["obj"]) and e["obj"] not in self.session.deleted)
        if e is None:
            return "skip"
        if self.session.dirty or self.session.deleted or self.session.new:
            return "skip"      # R3: expire discards un-flushed changes (documented); only a flushed session is expired here
        reach = self.closure(e["obj"], "refresh-expire")
        self.session.expire(e["obj"])
        for x in reach:
            if OS.state_of(x) == "persistent" and self.in_session(x):
                sc = self.U["scal"][type(x).__name__]
                if any(OS.loaded(x, a)[0] for a in sc):
                    self.V("C39", "refresh_expire_cascade_missed", "expire() did not expire %s reachable through a refresh-expire cascade"
                           % type(x).__name__)
        return e["label"]

    def op_expire_attr(self, a1, a2):
        """attribute-level expire of one scalar attribute without a pending change; other pending changes of the object must survive"""
        e = self.pick(a1, lambda e: OS.state_of(e["obj"]) == "persistent" and self.in_session(e["obj"]) and e["obj"] not in self.session.deleted)
        if e is None:
            return "skip"
        o = e["obj"]
        insp = self.m["inspect"](o)
        rel = {"A": "k", "A2": "k", "D": "blob"}.get(e["cls"])
        if a2 % 5 == 0 and rel and OS.loaded(o, rel)[0] and OS.loaded(o, rel)[1] is not None and not insp.attrs[rel].history.has_changes() \
                and self.member_ok(OS.loaded(o, rel)[1]):
            # a many-to-one without reverse side is removed with 'del' and the attribute is then expired: the removal is discarded
            # (documented for expire: pending changes of the expired attributes are lost), the attribute reads what the row says
            was = OS.loaded(o, rel)[1]
            delattr(o, rel)
            self.session.expire(o, [rel])
            h = insp.attrs[rel].history
            if h.has_changes():
                self.V("C36", "history_survived_expire", "%s.%s was deleted and then expired; its history still reports added=%s deleted=%s"
                       % (e["cls"], rel, [OS.pk_of(x) for x in h.added or ()], [OS.pk_of(x) for x in h.deleted or () if x is not None]))
            if getattr(o, rel) is not was:
                self.V("C46", "expired_relationship_read_stale", "%s.%s was expired and does not read the object its row refers to" % (e["cls"], rel))
            self.bump("probe:relationship_deleted_then_expired")
            return "%d.%s del+expire" % (e["label"], rel)
        names = [an for an in self.U["scal"][e["cls"]] if not insp.attrs[an].history.has_changes()]
        if not names:
            return "skip"
        an = names[a2 % len(names)]
        keep = {x: OS.loaded(o, x)[1] for x in self.U["scal"][e["cls"]] if x != an and OS.loaded(o, x)[0] and insp.attrs[x].history.has_changes()}
        self.session.expire(o, [an])
        self.loaded_before_set.pop((e["label"], an), None)       # a later set no longer knows the previous value
        if OS.loaded(o, an)[0]:
            self.V("C46", "attribute_not_expired", "expire(obj, [%r]) left the attribute loaded" % an)
        for x, v in keep.items():
            if OS.loaded(o, x) != (True, v):
                self.V("C46", "pending_change_lost", "expire(obj, [%r]) discarded the pending change of %r" % (an, x))
        return "%d.%s" % (e["label"], an)

    def op_read(self, a1, a2):
        """read every scalar attribute: expired ones must come back with the value the session's transaction sees, loaded ones (including
        pending changes) stay as they are"""
        e = self.pick(a1, lambda e: OS.state_of(e["obj"]) == "persistent" and self.in_session(e["obj"]) and e["obj"] not in self.session.deleted)
        if e is None:
            return "skip"
        o = e["obj"]
        names = self.U["scal"][e["cls"]]
        was = {an: OS.loaded(o, an) for an in names}
        st_ = self.m["inspect"](o)
        hist = st_.attrs
        absent = set()
        for an in names:
            if not was[an][0] and hist[an].history.has_changes():
                was[an] = (True, None)       # removed with 'del obj.attr': a pending change whose value is None, not an expired attribute
            elif not was[an][0] and not st_.expired and an not in st_.expired_attributes and an != "memo":
                # neither loaded nor expired nor deferred: an attribute removed with 'del' whose NULL has been flushed; it reads None
                # from memory until something expires it - not a claim of C46
                absent.add(an)
        if not self.cfg.get("autoflush", True) and (self.session.new or self.session.dirty or self.session.deleted) and \
                not all(w[0] for w in was.values()):
            pass        # a load without autoflush: the row the transaction sees is still the right answer for unloaded attributes
        pk = OS.pk_of(o)
        got = {}
        for an in names:
            try:
                got[an] = getattr(o, an)
            except self.m["orm_exc"].ObjectDeletedError:
                return "gone"
        now = self.probe()
        tab = self.tab_of(e["cls"])
        row = now[tab].get(OS.pk_of(o))
        if row is None:
            return "norow"
        cols = self.U["tables"][tab]
        for an in names:
            if was[an][0]:
                if got[an] != was[an][1]:
                    self.V("C46", "loaded_value_changed_by_read", "%s #%s.%s was loaded as %r and reads %r" % (e["cls"], pk, an, was[an][1], got[an]))
                continue
            dbv = now["a2"][pk][1] if an == "extra" else row[cols.index(an)]
            if an in absent:
                continue
            if got[an] != dbv:
                self.V("C46", "expired_attribute_read_stale", "%s #%s.%s was expired and reads %r while the database has %r"
                       % (e["cls"], pk, an, got[an], dbv))
        self.prev_tables = now
        return e["label"]

    def op_expire_all(self, a1, a2):
        if self.session.dirty or self.session.deleted or self.session.new:
            return "skip"      # R3
        self.session.expire_all()
        return "expire_all"

    def op_refresh(self, a1, a2):
        e = self.pick(a1, lambda e: OS.state_of(e["obj"]) == "persistent" and self.in_session(e["obj"]) and e["obj"] not in self.session.deleted)
        if e is None:
            return "skip"
        pk = OS.pk_of(e["obj"])
        if pk is None:
            return "skip"
        if self.session.new or self.session.dirty or self.session.deleted:
            if not self.cfg.get("autoflush", True):
                return "skip"
        try:
            self.session.refresh(e["obj"])
        except self.m["exc"].InvalidRequestError as ex:
            if "Could not refresh instance" not in str(ex):
                raise
            # documented: the row is gone (the autoflush refresh() starts with deleted the object as an orphan / by cascade)
            if pk in self.probe()[self.tab_of(e["cls"])]:
                self.V("C46", "refresh_failed_although_row_exists", "refresh() of %s #%s raised 'Could not refresh instance' although its row "
                       "exists" % (e["cls"], pk))
            raise self.m["orm_exc"].ObjectDeletedError(self.m["inspect"](e["obj"]))
        now = self.probe()
        self.check_obj_vs_row(e, now, "C46", "refresh")
        self.prev_tables = now
        return e["label"]

    # ------------------------------------------------------------------ placeholder ops refined in later layers
    def op_mut_data(self, a1, a2):
        e = self.pick(a1, lambda e: e["cls"] in ("A", "A2") and OS.state_of(e["obj"]) == "persistent" and self.in_session(e["obj"])
                      and e["obj"] not in self.session.deleted)
        if e is None:
            return "skip"
        o = e["obj"]
        d = o.data
        if d is None:
            o.data = {"n": a2}
        else:
            how = a2 % 5
            if how == 0:
                d["k%d" % (a2 % 3)] = a2
            elif how == 1:
                d.update({"u": a2})
            elif how == 2:
                d.pop("k", None) if "k" in d else d.setdefault("k", a2)
            elif how == 3:
                d.setdefault("s%d" % a2, a2)
            else:
                d.clear()
                d["c"] = a2
        if o not in self.session.dirty:
            self.V("C49", "mutation_not_flagged", "in-place mutation of a MutableDict value did not mark the parent as modified")
        return e["label"]

    def op_mut_items(self, a1, a2):
        e = self.pick(a1, lambda e: e["cls"] in ("A", "A2") and OS.state_of(e["obj"]) == "persistent" and self.in_session(e["obj"])
                      and e["obj"] not in self.session.deleted)
        if e is None:
            return "skip"
        o = e["obj"]
        lst = o.items
        if lst is None:
            o.items = [a2]
        else:
            how = a2 % 6
            if how == 0:
                lst.append(a2)
            elif how == 1:
                lst.extend([a2, a2 + 1])
            elif how == 2 and lst:
                lst.pop()
            elif how == 3:
                lst.insert(0, a2)
            elif how == 4 and lst:
                lst[0] = a2
            else:
                lst.sort()
                lst.append(-a2)
        if o not in self.session.dirty:
            self.V("C49", "mutation_not_flagged", "in-place mutation of a MutableList value did not mark the parent as modified")
        return e["label"]

    def op_ext_update(self, a1, a2):
        """another connection changes a row behind the session's back (committed at once)"""
        if self.sp_stack:
            return "skip"
        if self.session.in_transaction() or self.session.new or self.session.dirty or self.session.deleted:
            # release the locks held by the session's transaction first (SQLite is single-writer): the work so far is committed
            self.op_commit(0, 0)
            if self.viol:
                return "commit-first"
        e = self.pick(a1, lambda e: e["cls"] in ("A", "A2", "B", "K") and OS.pk_of(e["obj"]) is not None)
        if e is None:
            return "skip"
        pk = OS.pk_of(e["obj"])
        tab = self.tab_of(e["cls"])
        if pk not in self.prev_tables[tab]:
            return "skip"
        try:
            if e["cls"] in ("A", "A2"):
                self.obs.execute("update a set name=? where id=?", ("ext%d" % a2, pk))
                if e["cls"] == "A2" and a2 % 2:
                    self.obs.execute("update a2 set extra=? where id=?", ("ex%d" % a2, pk))
            elif e["cls"] == "B":
                self.obs.execute("update b set val=? where id=?", (1000 + a2, pk))
            else:
                self.obs.execute("update k set val=?, memo=? where name=?", (1000 + a2, "xm%d" % a2, pk))
        except sqlite3.OperationalError:
            return "locked"
        self.prev_tables = self.probe(committed=True)
        self.bump("probe:external_write")
        return "ext:%s#%s" % (tab, pk)

    def op_populate_existing(self, a1, a2):
        names = ["A", "B", "K"]
        cn = names[a1 % len(names)]
        C = self.U["classes"][cn]
        if self.session.new or self.session.dirty or self.session.deleted:
            return "skip"
        res = self.session.execute(self.m["select"](C).execution_options(populate_existing=True)).scalars().all()
        now = self.probe()
        for o in res:
            e = self.track(o)
            self.check_obj_vs_row(e, now, "C46", "populate_existing query")
        self.prev_tables = now
        return "%s:%d" % (cn, len(res))

    def op_merge(self, a1, a2):
        """C45: Session.merge of (0) a transient copy carrying some scalars, (1) a copy carrying a collection as well (merge cascade),
        (2) a clean detached instance from a second session with load=False, (3) a brand-new identity"""
        mode = a2 % 6
        sess = self.session
        insp = self.m["inspect"]
        C = self.U["classes"]
        if not self.cfg.get("autoflush", True) and (sess.new or sess.dirty or sess.deleted):
            return "skip"      # R3: merge looks the identity up in the database; without autoflush pending rows would be duplicated
        if mode == 5:
            # a merge that is refused (documented: load=False does not take transient objects) is a failed operation and nothing else
            cn = ("K", "T")[a1 % 2]
            n = self._newid(cn)
            src = C[cn](name="k%d" % n, val=a2) if cn == "K" else C[cn](id=n, name="m%d" % a2)
            try:
                sess.merge(src, load=False)
                self.V("C45", "merge_load_false_took_transient", "merge(load=False) accepted a transient object")
            except self.m["exc"].InvalidRequestError:
                self.bump("probe:merge_refused")
            if insp(src).session is not None or src in sess:
                self.V("C45", "merge_adopted_given_object", "a refused merge() left the given object in the session")
            return "merge5 refused"
        if mode == 4:
            return self.merge_pk_change(a1, a2)
        if mode == 3:
            cn = ("A", "A2", "K", "T")[a1 % 4]
            n = self._newid(cn)
            src = C[cn](name="k%d" % n, val=a2) if cn == "K" else (
                C[cn](id=n, name="m%d" % a2, extra="mx%d" % a2) if cn == "A2" else C[cn](id=n, name="m%d" % a2))
            pk, target, e = (src.name if cn == "K" else n), None, None
        else:
            # (a pending instance counts as the session's instance when autoflush is on: merge() flushes before it looks)
            e = self.pick(a1, lambda e: e["cls"] in ("A", "A2", "K", "B", "T") and not e.get("retired") and OS.pk_of(e["obj"]) is not None and (
                (self.in_session(e["obj"]) and OS.state_of(e["obj"]) == "persistent" and
                 (e["obj"] not in sess.deleted or (self.cfg.get("autoflush", True) and mode == 0 and e["cls"] in ("K", "T", "A", "A2")))) or
                (self.in_session(e["obj"]) and OS.state_of(e["obj"]) == "pending" and self.cfg.get("autoflush", True) and mode in (0, 1)
                 and e["cls"] in ("K", "T", "A", "A2")) or
                (OS.state_of(e["obj"]) == "detached" and not insp(e["obj"]).was_deleted)))
            if e is None:
                return "skip"
            cn, pk = e["cls"], OS.pk_of(e["obj"])
            if pk not in self.prev_tables[self.tab_of(cn)] and OS.state_of(e["obj"]) != "pending":
                return "skip"
            if any(x["cls"] == "B" and "delete-orphan" in self.U["cfg"]["bs"] and self.in_session(x["obj"]) and
                   OS.loaded(x["obj"], "a") == (True, None) for x in self.entries()):
                return "skip"      # an orphan is deleted by the autoflush merge() starts with: its identity is on the way out
            if any(x["cls"] == "K" and OS.loaded(x["obj"], "name")[0] and insp(x["obj"]).identity is not None and
                   insp(x["obj"]).identity[0] != OS.loaded(x["obj"], "name")[1] for x in self.entries()):
                return "skip"      # a primary key change is pending: identities are in motion until the next flush
            if any(x is not e and x["cls"] in ((cn,) if cn not in ("A", "A2") else ("A", "A2")) and OS.pk_of(x["obj"]) == pk and
                   self.in_session(x["obj"]) and x["obj"] is not e["obj"] for x in self.entries()) and not self.in_session(e["obj"]):
                pass
            target = e["obj"] if self.in_session(e["obj"]) else None
            if target is None:
                for x in self.entries():
                    if x["obj"] is not e["obj"] and self.in_session(x["obj"]) and insp(x["obj"]).key == insp(e["obj"]).key:
                        target = x["obj"]
            if target is not None and (target in sess.deleted or OS.state_of(target) == "deleted"):
                if not (self.cfg.get("autoflush", True) and mode == 0 and target is e["obj"] and target in sess.deleted
                        and OS.state_of(target) == "persistent"):
                    return "skip"      # the identity is on its way out: nothing to merge onto
                # marked for deletion, not flushed: the autoflush merge() starts with deletes the row, so the given state goes onto a
                # *new* instance for that identity - exactly as if flush() had been called first
                gone, target = target, None
        gone = locals().get("gone")
        names = self.U["scal"][cn]
        given = {}
        if mode == 2:
            if cn == "B" and "delete-orphan" in self.U["cfg"]["bs"]:
                pass
            if sess.new or sess.dirty or sess.deleted or self.txn_flushed or self.sp_stack:
                return "skip"      # R3: a detached copy read by another session shows committed state only
            S = self.m["Session"]
            with self.quiet():
                s2 = S(self.engine)
                try:
                    src = s2.get(C["A" if cn == "A2" else cn], pk)
                    if src is None:
                        return "skip"
                    if cn in ("A", "A2") and a1 % 2:
                        list(src.bs)
                    given = {an: getattr(src, an) for an in names}
                finally:
                    s2.close()
        elif mode != 3:
            kw = {"name": pk} if cn == "K" else {"id": pk}
            src = C[cn](**kw)
            for j, an in enumerate(names):
                if (a2 >> (2 + j)) & 1 or len(names) == 1:
                    given[an] = (a2 * 7 + j) if an == "val" else "m%s%d" % (an[0], a2)
                    setattr(src, an, given[an])
            if cn in ("A", "A2") and (a2 >> 5) & 1:
                src.data = {"m": a2}
                src.items = [a2, a2 + 1]
        else:
            given = {an: getattr(src, an) for an in names if an in insp(src).dict}
        want_bs = None
        if mode == 1 and cn in ("A", "A2"):
            rows = sorted(k for k, r in self.prev_tables["b"].items() if r[1] == pk)
            keep = [k for j, k in enumerate(rows) if (a1 >> j) & 1]
            if any(x["cls"] == "B" and OS.pk_of(x["obj"]) in rows and (x["obj"] in sess.deleted or OS.state_of(x["obj"]) == "deleted")
                   for x in self.entries()):
                return "skip"
            if len(keep) != len(rows) and not self.U["cfg"]["fk_nullable"] and "delete-orphan" not in self.U["cfg"]["bs"]:
                return "skip"
            src.bs = [C["B"](id=k, val=500 + k) for k in keep]
            if a1 % 3 == 0 and len(self.entries(self.of("B"))) < 8:
                src.bs.append(C["B"](id=self._newid("B"), val=600))
            want_bs = sorted(b.id for b in src.bs)
        del self.sql[:]
        before_dirty = None
        import contextlib
        # merge() inside an application-level no_autoflush block (only with nothing pending, so the block changes nothing): the
        # session must come out of it with its configured autoflush behaviour
        block = sess.no_autoflush if (a1 % 5 == 0 and not (sess.new or sess.dirty or sess.deleted)) else contextlib.nullcontext()
        if mode == 2:
            merged = sess.merge(src, load=False)
            if self.sql:
                self.V("C45", "merge_load_false_emitted_sql", "merge(load=False) emitted SQL: %s" % self.sql[0][0][:70])
            if merged in sess.dirty or sess.is_modified(merged):
                self.V("C45", "merge_load_false_flagged_change", "merge(load=False) of a clean %s flagged the session's instance as modified" % cn)
        else:
            with block:
                merged = sess.merge(src)
        if merged is src or insp(src).session is not None:
            self.V("C45", "merge_adopted_given_object", "merge() put the given %s itself into the session" % cn)
        if not self.in_session(merged):
            self.V("C45", "merged_instance_not_in_session", "merge() returned a %s that is not in the session" % cn)
        if target is not None and merged is not target:
            self.V("C45", "merge_returned_other_instance", "merge() returned a different object than the session's instance for %s #%s" % (cn, pk))
        if OS.pk_of(merged) != pk:
            self.V("C45", "merge_returned_other_identity", "merge() of %s #%s returned an instance with identity %s" % (cn, pk, OS.pk_of(merged)))
        st = OS.state_of(merged)
        if gone is not None:
            if merged is gone or merged in sess.deleted or OS.state_of(gone) != "deleted":
                self.V("C45", "merged_onto_instance_marked_deleted", "merge() of %s #%s returned / kept the instance that was marked for "
                       "deletion (returned is it: %s, still to be deleted: %s, its state: %s) although the flush merge() begins with removes it"
                       % (cn, pk, merged is gone, merged in sess.deleted, OS.state_of(gone)))
            self.bump("probe:merge_identity_marked_deleted")
        if (mode == 3 or gone is not None) and st != "pending" or not (mode == 3 or gone is not None) and st != "persistent":
            self.V("C45", "merged_instance_state", "merge() of %s identity returned a %s instance" % ("a new" if mode == 3 else "an existing", st))
        for an, val in given.items():
            got = OS.loaded(merged, an)
            if got != (True, val):
                self.V("C45", "merged_state_differs", "after merge %s #%s.%s is %r, the given object had %r" % (cn, pk, an, got[1] if got[0] else "<unloaded>", val))
        if mode != 2 and mode != 3 and cn in ("A", "A2") and (a2 >> 5) & 1:
            if dict(merged.data or {}) != {"m": a2} or list(merged.items or []) != [a2, a2 + 1]:
                self.V("C45", "merged_state_differs", "after merge A #%s mutable values are %r / %r" % (pk, merged.data, merged.items))
        if want_bs is not None:
            got_bs = sorted(OS.pk_of(b) for b in merged.bs)
            if got_bs != want_bs:
                self.V("C45", "merged_collection_differs", "after merge A #%s.bs holds %s, the given object's collection held %s" % (pk, got_bs, want_bs))
            for b in merged.bs:
                if not self.in_session(b) or any(b is sb for sb in src.bs):
                    self.V("C45", "merge_cascade_missed", "a member of the merged collection is not a session instance")
                elif OS.pk_of(b) in [sb.id for sb in src.bs if sb.val >= 500] and OS.loaded(b, "val")[1] != [sb.val for sb in src.bs if sb.id == OS.pk_of(b)][0]:
                    self.V("C45", "merged_state_differs", "merge cascade did not copy B #%s.val" % OS.pk_of(b))
        # merging the same state again changes nothing
        snap = lambda: ({an: OS.loaded(merged, an) for an in names}, sorted(OS.pk_of(b) for b in merged.bs) if want_bs is not None else None)
        s1 = snap()
        net_before = sess.is_modified(merged)
        if st == "pending" and not self.cfg.get("autoflush", True):
            return "merge%d %s#%s" % (mode, cn, pk)      # R3: without autoflush a second merge cannot find the pending row and creates another
        again = sess.merge(src, load=False) if mode == 2 else sess.merge(src)
        if again is not merged:
            self.V("C45", "merge_not_idempotent", "merging the same %s again returned another instance" % cn)
        if snap() != s1 or (not net_before and sess.is_modified(again)):
            self.V("C45", "merge_not_idempotent", "merging the same %s again changed the instance (%s -> %s, modified %s -> %s)"
                   % (cn, s1, snap(), net_before, sess.is_modified(again)))
        self.bump("probe:merge_mode_%d" % mode)
        return "merge%d %s#%s" % (mode, cn, pk)

    def merge_pk_change(self, a1, a2):
        """C45 on a natural primary key: (a) the given (detached) object had its key attribute re-assigned - the session's instance,
        found by the identity key, must take the new value; (b) the session's instance has an unflushed key change (autoflush off) and
        a clean detached copy is merged - the instance must get the given (old) value back"""
        sess = self.session
        insp = self.m["inspect"]
        K = self.U["classes"]["K"]
        if sess.new or sess.dirty or sess.deleted or self.txn_flushed or self.sp_stack:
            return "skip"
        e = self.pick(a1, lambda e: e["cls"] == "K" and self.in_session(e["obj"]) and OS.state_of(e["obj"]) == "persistent"
                      and OS.pk_of(e["obj"]) in self.prev_tables["k"])
        if e is None or not self.k_referrers_ok(e["obj"], True):
            return "skip"
        target, pk = e["obj"], OS.pk_of(e["obj"])
        with self.quiet():
            s2 = self.m["Session"](self.engine)
            try:
                src = s2.get(K, pk)
                if src is None:
                    return "skip"
                src.val, src.memo
            finally:
                s2.close()
        variant = (a2 // 6) % 2
        if variant == 0:
            want = "k%d" % self._newid("K")
            src.name = want
        else:
            if self.cfg.get("autoflush", True):
                return "skip"
            target.name = "k%d" % self._newid("K")
            want = pk
        merged = sess.merge(src)
        if merged is not target:
            self.V("C45", "merge_returned_other_instance", "merge() of K %r returned a different object than the session's instance" % pk)
        got = OS.loaded(merged, "name")
        if got != (True, want):
            self.V("C45", "merged_state_differs", "after merge K %r.name is %r, the given object had %r" % (pk, got[1] if got[0] else "<unloaded>", want))
        self.bump("probe:merge_pk_variant_%d" % variant)
        return "merge4 K#%s" % pk

    def op_bulk(self, a1, a2):
        """legacy bulk operations on the session (rows without objects); every third one collides with an existing primary key and fails"""
        sess = self.session
        K = self.U["classes"]["K"]
        if a2 % 3 == 0:
            have = sorted(self.prev_tables["k"])
            if not have:
                return "skip"
            name = have[a1 % len(have)]
            self.expected_integrity = True          # (cleared at the start of the next operation)
            sess.bulk_insert_mappings(K, [{"name": name, "val": a2}])
            self.V("C30", "duplicate_row_accepted", "bulk_insert_mappings with an existing primary key did not fail")
            return "bulk dup"
        name = "k%d" % self._newid("K")
        self.dropped_pks.setdefault("k", set()).add(name)
        if a2 % 3 == 1:
            sess.bulk_insert_mappings(K, [{"name": name, "val": a2, "memo": "b"}])
        else:
            sess.bulk_save_objects([K(name=name, val=a2, memo="b")])
        self.txn_flushed = True
        now = self.probe()
        if name not in now["k"]:
            self.V("C30", "bulk_row_missing", "bulk insert of K %r left no row" % name)
        self.prev_tables = now
        return "bulk ins"

    def op_row_replace(self, a1, a2):
        """the row of an expired persistent object is deleted by another connection, then a new object with the same primary key is
        added and flushed: the stale object leaves through 'deleted' (documented for a flush that finds the row gone), the new one is
        the identity's object"""
        sess = self.session
        if self.sp_stack:
            return "skip"
        if sess.in_transaction() or sess.new or sess.dirty or sess.deleted:
            self.op_commit(0, 0)
            if self.viol:
                return "commit-first"
        e = self.pick(a1, lambda e: e["cls"] in ("K", "T") and self.in_session(e["obj"]) and OS.state_of(e["obj"]) == "persistent" and
                      OS.pk_of(e["obj"]) in self.prev_tables[self.tab_of(e["cls"])])
        if e is None:
            return "skip"
        old, cn, pk = e["obj"], e["cls"], OS.pk_of(e["obj"])
        if cn == "K" and not self.k_referrers_ok(old, False):
            return "skip"
        if cn == "T" and any(r[1] == pk for r in self.prev_tables["b_t"].values()):
            return "skip"
        try:
            self.obs.execute("delete from %s where %s=?" % (self.tab_of(cn), "name" if cn == "K" else "id"), (pk,))
        except sqlite3.OperationalError:
            return "locked"
        sess.expire(old)
        C = self.U["classes"][cn]
        new = C(name=pk, val=a2, memo="r") if cn == "K" else C(id=pk, name="r%d" % a2)
        self.track(new, cn)
        e["replaced"] = True
        e["retired"] = True
        sess.add(new)
        sess.flush()
        self.txn_flushed = True
        st_old, st_new = OS.state_of(old), OS.state_of(new)
        key = self.m["inspect"](new).key
        if st_new != "persistent" or sess.identity_map.get(key) is not new:
            self.V("C35", "replacement_not_persistent", "the new %s #%s is %s / not the identity map's object after the flush" % (cn, pk, st_new))
        if st_old != "deleted":
            self.V("C35", "stale_object_not_deleted", "the flush found the row of the expired %s #%s gone and replaced it; the stale object is "
                   "%s%s, not 'deleted'" % (cn, pk, st_old, "" if self.in_session(old) else " (outside the session)"))
        self.prev_tables = self.probe()
        self.bump("probe:row_replaced")
        return "%d replaced" % e["label"]

    # ---- C49: one attribute per Mutable* flavour
    def m_row_values(self, row):
        """decoded column values of an m row: d (JSON), l / s (pickle), pt (x, y)"""
        import json
        import pickle as _p
        cols = self.U["tables"]["m"]
        g = lambda c: row[cols.index(c)]
        return {"d": json.loads(g("d")) if g("d") is not None else None, "l": _p.loads(g("l")) if g("l") is not None else None,
                "s": _p.loads(g("s")) if g("s") is not None else None,
                "pt": None if g("x") is None and g("y") is None else (g("x"), g("y"))}

    def m_plain(self, an, v):
        if v is None:
            return None
        return {"d": dict, "l": list, "s": set, "pt": lambda p: (p.x, p.y)}[an](v)

    def op_m_ops(self, a1, a2):
        """every mutating method of MutableDict / MutableList / MutableSet / a MutableComposite, plain assignment (coercion), nested
        replacement; after each in-place change of a persistent object the parent must be flagged (session.dirty)"""
        C = self.U["classes"]
        e = self.pick(a1, lambda e: e["cls"] == "M" and self.usable(e) and OS.state_of(e["obj"]) != "transient")
        if e is None or a2 % 16 == 0:
            if len(self.entries(self.of("M"))) >= 4:
                return "skip"
            n = self._newid("M")
            o = C["M"](id=n, d={"k": a2, "n": {"z": 1}}, l=[a2, 1], s={a2, 2}, pt=self.m["Point"](a1, a2))
            self.track(o, "M")
            self.session.add(o)
            return "M"
        o = e["obj"]
        flavour = ("d", "l", "s", "pt")[a2 % 4]
        how = (a2 // 4) % 12
        if OS.state_of(o) == "persistent" and not self.cfg.get("autoflush", True) and not OS.loaded(o, "x" if flavour == "pt" else flavour)[0] \
                and (self.session.dirty or self.session.new or self.session.deleted):
            return "skip"      # R3
        v = getattr(o, flavour)
        was_dirty = o in self.session.dirty
        if was_dirty and OS.state_of(o) == "persistent":
            # make "is flagged by *this* mutation" observable: start from a clean parent
            self.session.flush()
            self.txn_flushed = True
            self.prev_tables = self.probe()
        what = None
        if v is not None and how == 11 and a1 % 3 == 0 and flavour != "pt":
            # an assignment the Mutable type rejects (documented ValueError) is a failed operation: the attribute keeps its value, and
            # that value stays tracked - the mutation that follows must still be seen
            try:
                setattr(o, flavour, 42)
                self.V("C49", "bad_value_accepted", "assigning 42 to a Mutable%s attribute did not raise" % flavour)
            except ValueError:
                self.bump("probe:mutable_rejected_assignment")
            if getattr(o, flavour) is not v:
                self.V("C49", "rejected_assignment_changed_value", "a rejected assignment replaced the attribute value")
            how = a1 % 11
        if v is None or how == 11:
            new = {"d": {"a": a2}, "l": [a2, a2], "s": {a2, -a2}, "pt": self.m["Point"](a2, a1)}[flavour]
            setattr(o, flavour, new)          # plain value: coerced to the Mutable type
            v2 = getattr(o, flavour)
            if flavour != "pt" and not isinstance(v2, (self.m["MutableDict"], self.m["MutableList"], self.m["MutableSet"])):
                self.V("C49", "plain_value_not_coerced", "assigning a plain %s to a Mutable attribute left a %s" % (type(new).__name__, type(v2).__name__))
            what = "assign"
        elif flavour == "d":
            keys = sorted(k for k in v)
            k0 = keys[a1 % len(keys)] if keys else None
            if how == 0:
                v["k%d" % (a2 % 3)] = a2 + 1000
                what = "setitem"
            elif how == 1 and k0 is not None:
                del v[k0]
                what = "delitem"
            elif how == 2:
                v.update({"u": a2 + 1000}, w=a1 + 1000)
                what = "update"
            elif how == 3 and k0 is not None:
                v.pop(k0)
                what = "pop"
            elif how == 4 and keys:
                v.popitem()
                what = "popitem"
            elif how == 5:
                k = "sd%d" % a2
                if k in v:
                    return "skip"
                v.setdefault(k, a2)
                what = "setdefault"
            elif how == 6 and keys:
                v.clear()
                what = "clear"
            elif how == 7:
                if v.get("u") == a2 + 2000:
                    return "skip"
                v |= {"u": a2 + 2000}
                what = "ior"
            elif how == 8:
                # nested value: a plain dict inside is not tracked (documented); replacing it through the tracked parent is
                v["n"] = {"z": a2 + 1000}
                what = "nested_replace"
            else:
                return "skip"
        elif flavour == "l":
            if how == 0:
                v.append(a2)
                what = "append"
            elif how == 1:
                v.extend([a2, a1])
                what = "extend"
            elif how == 2 and v:
                v.pop()
                what = "pop"
            elif how == 3:
                v.insert(0, a2)
                what = "insert"
            elif how == 4 and v:
                if v[0] == a2 + 1000:
                    return "skip"
                v[0] = a2 + 1000
                what = "setitem"
            elif how == 5 and v:
                del v[0]
                what = "delitem"
            elif how == 6 and v:
                v.remove(v[-1])
                what = "remove"
            elif how == 7 and len(v) > 1 and list(v) != sorted(v):
                v.sort()
                what = "sort"
            elif how == 8 and len(v) > 1 and list(v) != list(reversed(v)):
                v.reverse()
                what = "reverse"
            elif how == 9:
                v += [a2]
                what = "iadd"
            elif how == 10 and v and len(v) < 20:
                v *= 2
                what = "imul"
            elif how == 6 or (how == 2 and not v):
                return "skip"
            else:
                if not v:
                    return "skip"
                v.clear()
                what = "clear"
        elif flavour == "s":
            if how == 0:
                if a2 + 1000 in v:
                    return "skip"
                v.add(a2 + 1000)
                what = "add"
            elif how == 1 and v:
                v.remove(sorted(v)[0])
                what = "remove"
            elif how == 2 and v:
                v.discard(sorted(v)[-1])
                what = "discard"
            elif how == 3 and v:
                v.pop()
                what = "pop"
            elif how == 4:
                if {a2 + 2000, a1 + 2000} <= v:
                    return "skip"
                v.update({a2 + 2000}, [a1 + 2000])
                what = "update"
            elif how == 5 and len(v) > 1:
                v.intersection_update(sorted(v)[:1])
                what = "intersection_update"
            elif how == 6 and v:
                v.difference_update(sorted(v)[:1])
                what = "difference_update"
            elif how == 7:
                v.symmetric_difference_update({a2 + 3000, sorted(v)[0] if v else a1})
                what = "symmetric_difference_update"
            elif how == 8:
                if a2 + 4000 in v:
                    return "skip"
                v |= {a2 + 4000}
                what = "ior"
            elif how == 9 and len(v) > 1:
                v &= set(sorted(v)[:1])
                what = "iand"
            elif how == 10 and v:
                v -= {sorted(v)[0]}
                what = "isub"
            else:
                v ^= {a2 + 5000}
                what = "ixor"
        else:
            if how % 2 == 0:
                if v.x == a2 + 1000:
                    return "skip"
                v.x = a2 + 1000
                what = "setattr_x"
            else:
                if v.y == a1 + 1000:
                    return "skip"
                v.y = a1 + 1000
                what = "setattr_y"
        if OS.state_of(o) == "persistent" and self.in_session(o) and o not in self.session.dirty:
            self.V("C49", "mutation_not_flagged", "Mutable%s %s() on a persistent, clean parent did not mark it as modified"
                   % ({"d": "Dict", "l": "List", "s": "Set", "pt": "Composite"}[flavour], what))
        self.bump("probe:mutable_%s_%s" % (flavour, what))
        return "%d.%s %s" % (e["label"], flavour, what)

    def op_m_expire_part(self, a1, a2):
        """C46: one of the columns under a composite changes in the database (a plain UPDATE on the session's own connection), then just
        that column is expired / refreshed: the composite read next must be built from what the row says now, the sibling column stays"""
        e = self.pick(a1, lambda e: e["cls"] == "M" and OS.state_of(e["obj"]) == "persistent" and self.in_session(e["obj"])
                      and e["obj"] not in self.session.deleted)
        if e is None:
            return "skip"
        o = e["obj"]
        sess = self.session
        if sess.new or sess.dirty or sess.deleted:
            sess.flush()
            self.txn_flushed = True
        before = o.pt                      # the composite value is loaded (cached on the object) from here on
        col = ("x", "y")[a2 % 2]
        pk = OS.pk_of(o)
        newv = 700 + a2 + (getattr(before, col) or 0 if before is not None else 0)
        sess.connection().exec_driver_sql("update m set %s=? where id=?" % col, (newv, pk))
        how = (a2 // 2) % 5
        if how == 0:
            sess.expire(o, [col])
        elif how == 1:
            sess.refresh(o, [col])
        elif how == 2:
            sess.expire(o, ["x", "y"])
        elif how == 3:
            sess.expire(o, ["pt"])         # by the name of the composite attribute itself
        else:
            sess.refresh(o, ["pt"])
        got = o.pt
        now = self.probe()
        row = now["m"].get(pk)
        self.prev_tables = now
        self.txn_flushed = True
        if row is None:
            return "norow"
        cols = self.U["tables"]["m"]
        want = (row[cols.index("x")], row[cols.index("y")])
        have = None if got is None else (got.x, got.y)
        if have != want and not (got is None and want == (None, None)):
            self.V("C46", "composite_read_stale", "M #%s.pt reads %r after %s of column %r while the row has %r"
                   % (pk, have, ("expire", "refresh", "expire of both columns", "expire of the composite attribute", "refresh of the composite attribute")[how], col, want))
        if (o.x, o.y) != want:
            self.V("C46", "expired_attribute_read_stale", "M #%s (x, y) reads %r while the row has %r" % (pk, (o.x, o.y), want))
        self.bump("probe:composite_column_expired")
        return "%d.%s:%d" % (e["label"], col, how)

    def op_m_reload(self, a1, a2):
        """C49 round trips: the Mutable values of a persistent parent go through commit+expire, refresh, populate_existing, pickling,
        merge into the session or a close + reload; the next m_ops mutation must still be tracked"""
        import pickle
        e = self.pick(a1, lambda e: e["cls"] == "M" and OS.state_of(e["obj"]) == "persistent" and self.in_session(e["obj"])
                      and e["obj"] not in self.session.deleted)
        if e is None:
            return "skip"
        o = e["obj"]
        how = a2 % 8
        sess = self.session
        busy = bool(sess.new or sess.dirty or sess.deleted)
        if busy:
            sess.flush()
            self.txn_flushed = True
            self.prev_tables = self.probe()
        if how == 0:
            sess.expire(o)
            what = "expire"
        elif how == 1:
            sess.refresh(o)
            what = "refresh"
        elif how == 2:
            sess.refresh(o, ["d", "l"])
            what = "refresh_attrs"
        elif how == 3:
            sess.execute(self.m["select"](self.U["classes"]["M"]).execution_options(populate_existing=True)).scalars().all()
            what = "populate_existing"
        elif how in (4, 5):
            if self.txn_flushed or self.sp_stack:
                return "skip"
            # pickle round trip of the parent: the copy replaces the original in the session (add of the detached copy, or merge)
            data = pickle.dumps(o)
            if how == 4:
                if sess.in_transaction():
                    sess.commit()
                sess.expunge(o)
                e["retired"] = True
                o2 = pickle.loads(data)
                self.track(o2, "M")
                sess.add(o2)
                what = "pickle_add"
            else:
                o2 = pickle.loads(data)
                merged = sess.merge(o2)
                if merged is not o:
                    self.V("C45", "merge_returned_other_instance", "merge() of an unpickled M returned a different object than the session's instance")
                what = "pickle_merge"
        elif how == 6:
            # merge of a transient copy carrying plain values
            C = self.U["classes"]["M"]
            src = C(id=OS.pk_of(o), d={"m": a2}, l=[a2], s={a2}, pt=self.m["Point"](a2, a2))
            cached = o.pt              # (the composite value is built - and cached - on first access)
            merged = sess.merge(src)
            if merged is not o:
                self.V("C45", "merge_returned_other_instance", "merge() of a transient M copy returned a different object than the session's instance")
            for an in ("d", "l", "s", "pt"):
                if self.m_plain(an, getattr(merged, an)) != self.m_plain(an, getattr(src, an)):
                    self.V("C45", "merged_state_differs", "after merge M #%s.%s is %r, the given object had %r"
                           % (OS.pk_of(o), an, getattr(merged, an), getattr(src, an)))
            what = "merge_copy"
        else:
            if self.txn_flushed or self.sp_stack:
                return "skip"
            sess.commit()
            what = "commit_expire"
        if not sess.in_transaction():
            self.txn_flushed = False
        self.adopt()
        self.prev_tables = self.probe()
        self.bump("probe:mutable_roundtrip_" + what)
        return "%d %s" % (e["label"], what)

    # ---- C48: the application drops its references
    def referenced_elsewhere(self, o):
        """is o reachable from another live object of the session: loaded relationship values, their committed originals, queued
        backref mutations of unloaded collections"""
        insp = self.m["inspect"]
        states = {id(st): st for st in list(self.session.identity_map.all_states()) + [insp(x) for x in self.session.new]}
        for e in self.objs:          # everything the application ever held and that is still alive (deleted / detached objects included)
            x = e["obj"] if e["obj"] is not None else e["ref"]()
            if x is not None:
                states[id(insp(x))] = insp(x)
            del x
        states = list(states.values())

        def holds(v):
            if v is o:
                return True
            if isinstance(v, dict):
                return any(y is o for y in v.values())
            if isinstance(v, (list, set, tuple, frozenset)):
                return any(y is o for y in v)
            return False

        for st in states:
            x = st.obj()
            if x is None or x is o:
                continue
            if any(holds(v) for v in list(st.dict.values())) or any(holds(v) for v in list(st.committed_state.values())):
                return True
            for pm in (st.__dict__.get("_pending_mutations") or {}).values():
                if any(y is o for y in list(pm.added_items) + list(pm.deleted_items)):
                    return True
        return False

    def _doomed_ids(self, extra=()):
        out = set()
        for d in list(self.session.deleted) + list(extra):
            out.add(id(d))
            out.update(id(x) for x in self.closure(d, "delete"))
        return out

    def op_drop(self, a1, a2):
        """C48: the application lets go of 1-3 objects the session holds (modified, pending, delete()-marked or clean), the collector runs,
        then the session is flushed: every change made before the drop must be in the rows; clean objects nobody refers to are released"""
        sess = self.session
        insp = self.m["inspect"]
        if self.cfg.get("autoflush", True) is False and False:
            return "skip"
        exp0 = self.pre_flush_expectations()
        orphan_ids = {id(x) for x in exp0["orphans"]}
        doomed = self._doomed_ids(exp0["orphans"]) - {id(x) for x in sess.deleted}
        del exp0
        # while anything is being deleted, objects a delete cascade can reach through relationships that are not loaded are left alone
        deleting = bool(sess.deleted) or bool(orphan_ids)
        cands = [e for e in self.entries() if self.in_session(e["obj"]) and not e.get("retired") and id(e["obj"]) not in orphan_ids
                 and not (deleting and e["cls"] in ("B", "BL", "D", "R", "O"))
                 and id(e["obj"]) not in doomed and OS.pk_of(e["obj"]) is not None and OS.state_of(e["obj"]) in ("pending", "persistent")]
        if not cands:
            return "skip"
        chosen = []
        for j in range(1 + a2 % 3):
            c = cands[(a1 + j * 7) % len(cands)]
            if c not in chosen:
                chosen.append(c)
        expect = []
        for e in chosen:
            o = e["obj"]
            st = OS.state_of(o)
            cn, pk, tab = e["cls"], OS.pk_of(o), self.tab_of(e["cls"])
            if cn == "K" and OS.loaded(o, "name")[0] and o not in sess.deleted:
                pk = OS.loaded(o, "name")[1]         # a pending primary key change: the row will be found under the new key
            if o in sess.deleted:
                kind = "delete"
            elif st == "pending":
                kind = "insert"
            elif o in sess.dirty:
                kind = "update"
            else:
                kind = "clean"
            vals = {}
            if kind in ("insert", "update"):
                for an in self.U["scal"][cn]:
                    ok, v = OS.loaded(o, an)
                    if ok and an != "extra":
                        vals[an] = v
                for an in OS.rel_attrs(self.U, o):
                    r = OS.rel_of(self.U, o, an)
                    if r["kind"] == "m2o":
                        ok, want = self.expected_fk(o, an)
                        tgt = OS.loaded(o, an)[1]
                        if ok and tgt is not None and type(tgt).__name__ == "K" and OS.loaded(tgt, "name")[0]:
                            want = OS.loaded(tgt, "name")[1]        # a pending rename of the natural key travels to the referring rows
                        if ok and not (tgt is not None and (tgt in sess.deleted or id(tgt) in doomed)):
                            vals[r["fk"][1]] = want
                        del tgt
                if cn == "M":
                    for an in ("d", "l", "s", "pt"):
                        ok, v = OS.loaded(o, "x" if an == "pt" else an)
                        if ok:
                            vals["m:" + an] = self.m_plain(an, getattr(o, an))
            lone = kind == "clean" and not insp(o).modified and not self.referenced_elsewhere(o)
            expect.append({"kind": kind, "cls": cn, "pk": pk, "tab": tab, "vals": vals, "ref": e["ref"], "lone": lone, "key": insp(o).key})
            self.dropped_pks.setdefault(tab, set()).update({pk, OS.pk_of(o)})
            if cn == "A2":
                self.dropped_pks.setdefault("a2", set()).add(pk)
            e["obj"] = None
            self.by_id.pop(id(o), None)
            self.removed_rs = [x for x in self.removed_rs if x is not o]
            del o
        del chosen, cands, e, c
        gc.collect()
        for x in expect:
            if x["lone"]:
                if x["ref"]() is not None or x["key"] in sess.identity_map:
                    # a clean object that nothing refers to is released from the (weak-referencing) identity map
                    self.V("C48", "clean_object_not_released", "a clean persistent %s #%s with no remaining references is still held by the "
                           "session after garbage collection" % (x["cls"], x["pk"]))
                else:
                    self.bump("probe:clean_object_released")
            elif x["kind"] in ("insert", "update", "delete") and x["ref"]() is None:
                self.V("C48", "object_with_pending_change_released", "%s #%s with a pending %s was garbage collected before the flush"
                       % (x["cls"], x["pk"], x["kind"]))
        self.bump("probe:dropped_with_pending_change", sum(1 for x in expect if x["kind"] != "clean"))
        self._flush("commit" if a2 % 5 == 0 and not self.sp_stack else "flush")
        now = self.prev_tables
        for x in expect:
            row = now[x["tab"]].get(x["pk"])
            if x["kind"] == "delete":
                if row is not None:
                    self.V("C48", "dropped_delete_not_flushed", "%s #%s was marked for deletion, then dropped by the application; its row is "
                           "still there after flush" % (x["cls"], x["pk"]))
                continue
            if x["kind"] == "clean":
                continue
            if row is None:
                self.V("C48", "dropped_change_not_flushed", "%s #%s had a pending %s when the application dropped it; it has no row after flush"
                       % (x["cls"], x["pk"], x["kind"]))
                continue
            cols = self.U["tables"][x["tab"]]
            mvals = self.m_row_values(row) if x["cls"] == "M" else {}
            for an, v in x["vals"].items():
                got = mvals[an[2:]] if an.startswith("m:") else row[cols.index(an)]
                if got != v:
                    self.V("C48", "dropped_change_not_flushed", "%s #%s.%s was %r when the application dropped the object (pending %s); the row "
                           "has %r after flush" % (x["cls"], x["pk"], an, v, x["kind"], got))
        return "drop%d" % len(expect)

    def op_gc(self, a1, a2):
        gc.collect()
        return "gc"

    def op_pickle_rt(self, a1, a2):
        return "skip"

    # ------------------------------------------------------------------ oracles
    def diff_tables(self, a, b):
        out = []
        for t in a:
            if a[t] != b[t]:
                ka, kb = set(a[t]), set(b[t])
                out.append("%s: -%s +%s changed %s" % (t, sorted(ka - kb)[:4], sorted(kb - ka)[:4],
                                                       [k for k in ka & kb if a[t][k] != b[t][k]][:4]))
        return "; ".join(out)[:300]

    def expected_fk(self, o, an):
        """expected FK column value from the loaded many-to-one / one-to-one(parent side) reference; (False, None) if unknown"""
        ok, tgt = OS.loaded(o, an)
        if not ok:
            return False, None
        if tgt is None:
            return True, None
        st = OS.state_of(tgt)
        if st in ("deleted",) or (st == "detached" and self.m["inspect"](tgt).was_deleted):
            return True, None
        if st == "transient":
            return False, None        # not in the session: "add operation will not proceed" (R2) - the FK stays as it was
        return True, OS.pk_of(tgt)

    def check_rows(self, now, how):
        """C30: the rows equal the state of the objects in the session; rows of everything else are untouched"""
        prev = self.prev_tables
        owned = {t: set() for t in now}
        U = self.U
        for e in self.entries():
            o = e["obj"]
            if not self.in_session(o) and not (OS.state_of(o) == "detached" and self.m["inspect"](o).was_deleted):
                continue
            st = OS.state_of(o)
            cn = e["cls"]
            pk = OS.pk_of(o)
            tab = self.tab_of(cn)
            if pk is None:
                continue
            if st == "deleted" or (st == "detached" and self.m["inspect"](o).was_deleted):
                owned[tab].add(pk)
                if e.get("replaced"):
                    continue      # its identity now belongs to the object that replaced it
                if pk in now[tab]:
                    self.V("C30", "deleted_object_row_present", "%s #%s is deleted in the session but its row is still there after %s" % (cn, pk, how))
                if cn == "A2" and pk in now["a2"]:
                    self.V("C30", "deleted_object_row_present", "A2 #%s is deleted but its a2 row is still there after %s" % (pk, how))
                for (c2, an), r in U["rels"].items():
                    if c2 == cn and r["kind"] == "m2m":
                        t2, own, oth = r["assoc"]
                        left = [k for k, row in now[t2].items() if row[U["tables"][t2].index(own)] == pk]
                        if left:
                            self.V("C30", "association_row_of_deleted_object", "association rows %s of deleted %s #%s remain in %s after %s"
                                   % (left, cn, pk, t2, how))
                continue
            if st != "persistent":
                continue
            owned[tab].add(pk)
            if self.pre_pk.get(e["label"]) is not None:
                owned[tab].add(self.pre_pk[e["label"]])      # primary key changed in this flush: the old row is this object's too
            row = now[tab].get(pk)
            if row is None:
                self.V("C30", "persistent_object_without_row", "%s #%s is persistent in the session but has no row after %s" % (cn, pk, how))
                continue
            cols = U["tables"][tab]
            for an in U["scal"][cn]:
                if an == "extra":
                    continue
                ok, v = OS.loaded(o, an)
                if ok and row[cols.index(an)] != v:
                    self.V("C30", "column_differs_from_object", "%s #%s.%s is %r in memory but %r in the row after %s"
                           % (cn, pk, an, v, row[cols.index(an)], how))
            if cn == "A2":
                r2 = now["a2"].get(pk)
                ok, v = OS.loaded(o, "extra")
                if r2 is None:
                    self.V("C30", "persistent_object_without_row", "A2 #%s has no a2 row after %s" % (pk, how))
                elif ok and r2[1] != v:
                    self.V("C30", "column_differs_from_object", "A2 #%s.extra is %r in memory but %r in the row" % (pk, v, r2[1]))
            if cn in ("A", "A2"):
                import json
                ok, v = OS.loaded(o, "data")
                if ok:
                    dbv = row[cols.index("data")]
                    dbv = json.loads(dbv) if dbv is not None else None
                    if dbv != (dict(v) if v is not None else None):
                        self.V("C49", "mutable_value_not_persisted", "A #%s.data is %r in memory but %r in the row after %s" % (pk, v, dbv, how))
                ok, v = OS.loaded(o, "items")
                if ok:
                    import pickle as _p
                    dbv = row[cols.index("items")]
                    dbv = _p.loads(dbv) if dbv is not None else None
                    if dbv != (list(v) if v is not None else None):
                        self.V("C49", "mutable_value_not_persisted", "A #%s.items is %r in memory but %r in the row after %s" % (pk, v, dbv, how))
            if cn == "M":
                for an, dbv in self.m_row_values(row).items():
                    ok, v = OS.loaded(o, an)
                    if ok and self.m_plain(an, v) != dbv:
                        self.V("C49", "mutable_value_not_persisted", "M #%s.%s is %r in memory but %r in the row after %s" % (pk, an, v, dbv, how))
            for (c2, an), r in U["rels"].items():
                if c2 != cn:
                    continue
                if r["kind"] == "m2o":
                    t2, col = r["fk"]
                    ok, want = self.expected_fk(o, an)
                    if ok and row[cols.index(col)] != want:
                        self.V("C30", "foreign_key_differs_from_object", "%s #%s.%s refers to %r in memory but the row has %s=%r after %s"
                               % (cn, pk, an, want, col, row[cols.index(col)], how))
                elif r["kind"] in ("o2m", "o2o"):
                    ok, v = OS.loaded(o, an)
                    if ok:
                        t2, col = r["fk"]
                        kids = OS.members(v)
                        if any(OS.state_of(k) == "detached" or (OS.state_of(k) in ("persistent", "pending") and not self.in_session(k)) for k in kids):
                            continue       # an expunged object stays in the in-memory collection while its row lives on: nothing to compare
                        want = sorted(OS.pk_of(k) for k in kids if OS.state_of(k) == "persistent" and self.in_session(k))
                        c2cols = U["tables"][t2]
                        got = sorted(k for k, rr in now[t2].items() if rr[c2cols.index(col)] == pk)
                        # children the session does not hold (never loaded) are not part of a *loaded* collection by definition
                        if got != want:
                            self.V("C30", "collection_differs_from_rows", "%s #%s.%s holds %s in memory but rows with %s=%s are %s after %s"
                                   % (cn, pk, an, want, col, pk, got, how))
                elif r["kind"] == "m2m":
                    ok, v = OS.loaded(o, an)
                    if ok:
                        t2, own, oth = r["assoc"]
                        c2cols = U["tables"][t2]
                        if any(OS.state_of(k) == "detached" for k in v):
                            continue
                        want = sorted(OS.pk_of(k) for k in v if OS.state_of(k) == "persistent" and self.in_session(k))
                        got = sorted(rr[c2cols.index(oth)] for rr in now[t2].values() if rr[c2cols.index(own)] == pk)
                        if got != want:
                            self.V("C30", "association_rows_differ_from_collection", "%s #%s.%s holds %s in memory but %s has %s after %s"
                                   % (cn, pk, an, want, t2, got, how))
        # no row refers to a row that does not exist (deferred / unenforced foreign keys included)
        for t2, col, t3 in (("a", "k_name", "k"), ("b", "a_id", "a"), ("p", "a_id", "a"), ("node", "parent_id", "node"), ("d", "bl_id", "bl"),
                            ("h", "d_id", "d"), ("r", "q_id", "q"), ("o", "g_id", "g"), ("b_t", "b_id", "b"), ("b_t", "t_id", "t"),
                            ("nf", "src", "node"), ("nf", "dst", "node"), ("a2", "id", "a"), ("nl", "node_id", "node"), ("nl", "t_id", "t")):
            j = U["tables"][t2].index(col)
            for key, row in now[t2].items():
                if row[j] is not None and row[j] not in now[t3]:
                    self.V("C30", "dangling_foreign_key", "after %s row %s#%s has %s=%r but %s holds no such row" % (how, t2, key, col, row[j], t3))
        known = {t: set() for t in now}
        for e in self.entries():
            pk = OS.pk_of(e["obj"])
            if pk is not None:
                known[self.tab_of(e["cls"])].add(pk)
        for t, pks in self.dropped_pks.items():
            # rows of objects the application has let go of (C48): their pending changes are flushed without a tracked object
            known[t] |= pks
            owned[t] |= pks
        # rows that belong to no object of the session: untouched
        for t in ("a", "b", "t", "node", "k", "p", "bl", "d", "h", "q", "r", "g", "o", "m"):
            for pk, row in prev[t].items():
                if pk in owned[t]:
                    continue
                if pk not in now[t] and (t, pk) in self.deleted_in_op:
                    continue       # loaded by the unit of work for a cascade and deleted within this flush
                if pk not in now[t]:
                    self.V("C30", "unrelated_row_deleted", "row %s#%s, which belongs to no object of the session, disappeared during %s" % (t, pk, how))
                elif now[t][pk] != row:
                    # FK nulling caused by the delete of the referenced row is the documented exception
                    cols = U["tables"][t]
                    diffs = [c for j, c in enumerate(cols) if row[j] != now[t][pk][j]]
                    fkcols = {"b": "a_id", "p": "a_id", "node": "parent_id", "o": "g_id"}
                    if diffs == [fkcols.get(t)] and now[t][pk][cols.index(diffs[0])] is None:
                        continue
                    self.V("C30", "unrelated_row_changed", "row %s#%s, which belongs to no object of the session, changed during %s: %s -> %s"
                           % (t, pk, how, row, now[t][pk]))
            for pk in now[t]:
                if pk not in prev[t] and pk not in owned[t] and pk not in known[t]:
                    self.V("C30", "unexpected_row", "row %s#%s appeared during %s but no object of the session stands for it" % (t, pk, how))

    def check_orphans(self, exp, now):
        for o in exp["orphans"]:
            st = OS.state_of(o)
            back = {"B": "a", "O": "g"}.get(type(o).__name__)
            ok, par = OS.loaded(o, back) if back else (True, None)
            if back and ok and par is not None:
                continue
            pk = OS.pk_of(o)
            tab = self.tab_of(type(o).__name__)
            if pk in now[tab]:
                self.V("C39", "orphan_not_deleted", "%s #%s lost its delete-orphan parent, was not re-associated, and still has a row after flush "
                       "(universe %s)" % (type(o).__name__, pk, self.cfg["universe"]))
        for c, ccls, plabel, an in exp.get("held", ()):
            pk = OS.pk_of(c)
            if OS.state_of(c) in ("deleted", "detached") and pk not in now[self.tab_of(ccls)]:
                if id(c) in getattr(self, "swapped", ()):
                    self.V("C39", "held_object_deleted", "after the list swap 'lst[i], lst[j] = lst[j], lst[i]' of two persistent members of the "
                           "delete-orphan collection .%s the flush deleted one of them (%s): both sides and the attribute history say nothing changed" % (an, ccls))
                    continue
                self.V("C39", "held_object_deleted", "%s #%s was deleted by the flush although object %s held it in its loaded .%s, it was not "
                       "marked for deletion and its parent was not deleted" % (ccls, pk, plabel, an))
                if self.counters.get("op:sp_rollback"):
                    self.V("C33", "held_object_deleted", "after a savepoint rollback, the flush deleted %s #%s which object %s holds in .%s "
                           "and nobody marked for deletion" % (ccls, pk, plabel, an))
        if "delete-orphan" in self.U["cfg"]["bs"]:
            for pk, row in now["b"].items():
                if row[1] is None:
                    self.V("C39", "orphan_row_remains", "b#%s has no parent row after flush although the relationship is delete-orphan" % pk)
        for r in self.removed_rs:
            pk = OS.pk_of(r)
            if pk is not None and pk in now["r"] and not any(r in (OS.loaded(q["obj"], "rs")[1] or []) for q in self.entries(self.of("Q"))):
                self.V("C39", "orphan_not_deleted", "R #%s was removed from the delete-orphan collection Q.rs, not re-associated, and still has "
                       "a row after flush" % pk)
        self.removed_rs = []
        for pk, row in now["r"].items():
            if row[1] is None:
                self.V("C39", "orphan_row_remains", "r#%s has no parent row after flush although Q.rs is delete-orphan" % pk)
        for pk, row in now["o"].items():
            if row[1] is None:
                self.V("C39", "orphan_row_remains", "o#%s has no parent row after flush although G.opts is delete-orphan" % pk)
        held = {row[1] for row in now["h"].values()}
        for pk in now["d"]:
            if pk not in held:
                self.V("C39", "orphan_row_remains", "d#%s is referenced by no holder after flush although H.doc is delete-orphan" % pk)
        used = {row[1] for row in now["d"].values()}
        for pk in now["bl"]:
            if pk not in used:
                self.V("C39", "delete_cascade_missed", "bl#%s survived although its document was deleted (D.blob cascade=all)" % pk)

    def check_obj_vs_row(self, e, now, prop, how):
        o = e["obj"]
        pk = OS.pk_of(o)
        tab = self.tab_of(e["cls"])
        row = now[tab].get(pk)
        if row is None:
            return
        cols = self.U["tables"][tab]
        for an in self.U["scal"][e["cls"]]:
            if an == "extra":
                r2 = now["a2"].get(pk)
                ok, v = OS.loaded(o, "extra")
                if ok and r2 is not None and r2[1] != v:
                    self.V(prop, "stale_attribute", "after %s A2 #%s.extra is %r but the database has %r" % (how, pk, v, r2[1]))
                continue
            ok, v = OS.loaded(o, an)
            if ok and row[cols.index(an)] != v:
                self.V(prop, "stale_attribute", "after %s %s #%s.%s is %r but the database has %r" % (how, e["cls"], pk, an, v, row[cols.index(an)]))

    def check_no_stale(self, now, how):
        """C33: after commit / rollback no *loaded* attribute value differs from the row (detected without triggering loads)"""
        for e in self.entries():
            o = e["obj"]
            if self.in_session(o) and OS.state_of(o) == "persistent" and o not in self.session.dirty:
                self.check_obj_vs_row(e, now, "C33", how)
                for an in OS.rel_attrs(self.U, o):
                    r = OS.rel_of(self.U, o, an)
                    if r["kind"] == "m2o":
                        ok, want = self.expected_fk(o, an)
                        pk = OS.pk_of(o)
                        row = now[self.tab_of(e["cls"])].get(pk)
                        if ok and row is not None:
                            cols = self.U["tables"][r["fk"][0]]
                            if row[cols.index(r["fk"][1])] != want:
                                self.V("C33", "stale_reference", "after %s %s #%s.%s refers to %r but the row has %r"
                                       % (how, e["cls"], pk, an, want, row[cols.index(r["fk"][1])]))

    def check_reload(self):
        """C30: a new session reproduces an equivalent graph from the committed rows"""
        now = self.probe(committed=True)
        S = self.m["Session"]
        with self.quiet(), S(self.engine) as s2:
            for cn, tab in (("A", "a"), ("B", "b"), ("T", "t"), ("Node", "node"), ("K", "k"), ("P", "p"), ("H", "h"), ("G", "g"), ("O", "o")):
                objs = s2.execute(self.m["select"](self.U["classes"][cn])).scalars().all()
                got = sorted(OS.pk_of(o) for o in objs)
                if got != sorted(now[tab]):
                    self.V("C30", "reload_differs", "a fresh session loads %s identities %s, the table holds %s" % (cn, got, sorted(now[tab])))
                for o in objs:
                    if cn == "B":
                        want = now["b"][o.id][1]
                        if (o.a.id if o.a is not None else None) != want:
                            self.V("C30", "reload_differs", "reloaded B #%s.a is %s, row says %s" % (o.id, o.a, want))
                        t_want = sorted(r[1] for r in now["b_t"].values() if r[0] == o.id)
                        if sorted(t.id for t in o.tags) != t_want:
                            self.V("C30", "reload_differs", "reloaded B #%s.tags differ from b_t" % o.id)
                    if cn == "Node":
                        f_want = sorted(r[1] for r in now["nf"].values() if r[0] == o.id)
                        if sorted(n.id for n in o.follows) != f_want:
                            self.V("C30", "reload_differs", "reloaded Node #%s.follows differ from nf" % o.id)
                    if cn == "G":
                        want = {r[3]: pk2 for pk2, r in now["o"].items() if r[1] == o.id}
                        if {k: v.id for k, v in o.opts.items()} != want:
                            self.V("C30", "reload_differs", "reloaded G #%s.opts is %s, rows say %s" % (o.id, {k: v.id for k, v in o.opts.items()}, want))
                    if cn == "A":
                        row = now["a"][o.id]
                        if type(o).__name__ != ("A2" if row[2] == "a2" else "A"):
                            self.V("C30", "reload_differs", "reloaded A #%s has class %s, discriminator %s" % (o.id, type(o).__name__, row[2]))
            s2.rollback()

    def retire_rolled_back(self, before):
        for e in self.entries():
            if before.get(e["label"]) in ("pending", "persistent", "deleted") and OS.state_of(e["obj"]) == "transient":
                e["retired"] = True      # its attribute history still refers to the rolled-back flush; the application lets go of it
                e["rolled_back"] = True  # (histories with cfg readd try again with the same object: documented retry pattern)
                self.bump("probe:object_made_transient_by_rollback")

    def check_lifecycle(self, i, kind, before, rolled_back=False):
        """C35: exactly one state; events of each object form a walk from the state before the operation to the state after it.
        rolled_back: the operation was a rollback, or it raised and the harness rolled the session back (same exits apply)"""
        per = {}
        for name, oid in self.events:
            per.setdefault(oid, []).append(name)
        for e in self.entries():
            o = e["obj"]
            insp = self.m["inspect"](o)
            flags = [insp.transient, insp.pending, insp.persistent, insp.deleted, insp.detached]
            if sum(1 for f in flags if f) != 1:
                self.V("C35", "not_exactly_one_state", "%s is in states %s after %s" % (e["cls"], flags, kind), op=i)
                continue
            after = OS.state_of(o)
            b = before.get(e["label"], "unloaded")
            evs = per.pop(id(o), [])
            cur = b
            ok = True
            for name in evs:
                src, dst = OS.EDGES[name]
                if cur == "unloaded" and src != "unloaded":
                    cur = src      # first seen in this operation (created by a loader or adopted): accept its first event's source
                if src != cur:
                    # rollback of a transaction that had inserted the object: the transaction still counts an object that was expunged
                    # meanwhile as its own and sends it to transient, announcing that from the state it last had *in* the session
                    # (same for an object that was expunged from the 'deleted' state: it is announced with deleted_to_detached)
                    if rolled_back and cur == "detached" and name in ("persistent_to_transient", "deleted_to_detached"):
                        cur = dst
                        continue
                    ok = False
                    break
                cur = dst
            if ok and cur != after and not (cur == "unloaded" and not evs):
                # an object that leaves the session in a rollback and whose row never got committed ends up without identity key
                # ("transient"); the event vocabulary only has *_to_detached for leaving from the deleted state: same exit
                if not (rolled_back and {cur, after} == {"detached", "transient"}):
                    ok = False
            if b == "unloaded" and not evs:
                ok = True       # adopted without having been observed before
            if kind == "make_transient" and b == "detached" and after == "transient" and not evs:
                ok = True       # make_transient() of a detached object happens outside any session: no session event exists for it
            if not ok:
                self.V("C35", "events_do_not_match_transition", "%s went %s -> %s during %s but the lifecycle events were %s"
                       % (e["cls"], b, after, kind, evs), op=i)
        for oid, evs in per.items():
            # events for objects the harness does not hold are fine (loaded and released); nothing to compare with
            pass

    def check_backrefs(self, i, kind):
        """C37: both sides of every bidirectional pair agree, for members of the session, on loaded state only"""
        U = self.U
        for e in self.entries():
            o = e["obj"]
            if not self.usable(e):
                continue
            for an in OS.rel_attrs(U, o):
                r = OS.rel_of(U, o, an)
                if r["rev"] is None:
                    continue
                ok, v = OS.loaded(o, an)
                if not ok:
                    continue
                items = OS.members(v)
                for y in items:
                    ey = self.by_id.get(id(y))
                    if ey is None or not self.usable(ey):
                        continue
                    ok2, back = OS.loaded(y, r["rev"])
                    if not ok2:
                        continue
                    rk = OS.rel_of(U, y, r["rev"])["kind"]
                    good = any(z is o for z in OS.members(back)) if rk in ("o2m", "m2m") else (back is o)
                    if not good:
                        note = ""
                        if kind == "set_p" and getattr(self, "steal_note", False) and {an, r["rev"]} == {"p", "a"}:
                            note = " [one-to-one member taken over while a previous owner / member was loaded]"
                        elif kind == "set_p" and getattr(self, "unloaded_note", False) and {an, r["rev"]} == {"p", "a"}:
                            note = " [many-to-one side assigned while its previous value was not loaded]"
                        self.V("C37", "backref_out_of_sync", "%s.%s contains/refers to a %s whose %s does not point back (after %s)%s"
                               % (e["cls"], an, ey["cls"], r["rev"], kind, note), op=i)

    def check_identity(self, i, kind):
        seen = {}
        for e in self.entries():
            o = e["obj"]
            if not self.in_session(o):
                continue
            key = self.m["inspect"](o).key
            if key is None or OS.state_of(o) == "deleted":
                continue       # (flushed DELETE, transaction open: out of the identity map; a new object may already stand for the key)
            if key in seen and seen[key] is not o:
                self.V("C34", "two_objects_one_identity", "two live objects in the session share identity %s after %s" % (key[1:2], kind), op=i)
            seen[key] = o
            im = self.session.identity_map.get(key)
            if im is None and OS.state_of(o) == "persistent":
                # a persistent object of the session that the identity map does not list: the next load of its row builds a second one
                self.V("C34", "persistent_object_missing_from_identity_map", "a persistent object of the session is not in its identity map "
                       "(%s, after %s)" % (key[1:2], kind), op=i)
            if im is not None and im is not o and OS.state_of(o) == "persistent":
                self.V("C34", "identity_map_holds_other_object", "the identity map holds a different object for %s than the persistent one "
                       "the application uses (after %s)" % (key[1:2], kind), op=i)

        held = {}
        try:
            items = list(self.session.identity_map.items())
        except AssertionError:
            self.V("*", "identity_map_holds_keyless_state", "the identity map lists an object whose state has no identity key (after %s)" % kind, op=i)
            items = []
        for key, o in items:
            if self.m["inspect"](o).session is not self.session:
                self.V("C34", "identity_map_holds_detached_object", "the identity map lists, under %s, an object that does not belong to the "
                       "session (after %s)" % (key[1:2], kind), op=i)
            if self.m["inspect"](o).key != key:
                self.V("C34", "identity_map_entry_under_foreign_key", "the identity map lists an object under %s whose own identity is %s "
                       "(after %s)" % (key[1:2], (self.m["inspect"](o).key or (None, None))[1:2], kind), op=i)
            if id(o) in held:
                self.V("C34", "object_under_two_identities", "one object is registered under identities %s and %s (after %s)"
                       % (held[id(o)][1:2], key[1:2], kind), op=i)
            held[id(o)] = key

    # ---- history (C36)
    def collect_history(self):
        out = []
        insp = self.m["inspect"]
        for e in self.entries():
            o = e["obj"]
            if not self.in_session(o) or OS.state_of(o) != "persistent" or o in self.session.deleted:
                continue
            pk = OS.pk_of(o)
            tab = self.tab_of(e["cls"])
            row = self.prev_tables[tab].get(pk) if pk is not None else None
            if row is None:
                continue
            cols = self.U["tables"][tab]
            for an in self.U["scal"][e["cls"]]:
                if an == "extra":
                    continue
                ok, cur = OS.loaded(o, an)
                if not ok:
                    continue
                h = insp(o).attrs[an].history
                dbv = row[cols.index(an)]
                known_orig = self.loaded_before_set.get((e["label"], an), True)
                if cur == dbv:
                    good = (list(h.unchanged) == [cur] and not h.added and not h.deleted) or (not known_orig and list(h.added) == [cur])
                else:
                    good = list(h.added) == [cur] and (list(h.deleted) in ([dbv], []) if True else False) and not h.unchanged
                    if good and known_orig and list(h.deleted) != [dbv]:
                        good = False
                if not good:
                    self.V("C36", "history_is_not_net_change", "%s #%s.%s: committed %r, current %r, but history is added=%s unchanged=%s deleted=%s"
                           % (e["cls"], pk, an, dbv, cur, list(h.added), list(h.unchanged), list(h.deleted)))
                out.append((tab, pk, an, cur != dbv, known_orig))
            self.check_rel_history(e, o, pk)
        return out

    def check_rel_history(self, e, o, pk):
        """C36 for relationship attributes: added + unchanged is the current value, unchanged + deleted is the committed value (the rows as
        of the last flush), the three parts are disjoint"""
        insp = self.m["inspect"]
        tabs = self.prev_tables
        for an in OS.rel_attrs(self.U, o):
            r = OS.rel_of(self.U, o, an)
            ok, v = OS.loaded(o, an)
            if not ok:
                continue
            h = insp(o).attrs[an].history
            cur = OS.members(v)
            parts = [[x for x in (part or ()) if x is not None] for part in (h.added, h.unchanged, h.deleted)]
            everyone = cur + parts[2]
            if any(not self.in_session(x) or OS.state_of(x) not in ("persistent", "pending") for x in everyone):
                continue        # stale members (detached / deleted elsewhere / never added): R2 territory, judged by C39 / C33
            ids = [[id(x) for x in part] for part in parts]
            desc = lambda: "added=%s unchanged=%s deleted=%s" % tuple([OS.pk_of(x) for x in part] for part in parts)
            if sorted(ids[0] + ids[1]) != sorted(id(x) for x in cur) or set(ids[2]) & set(ids[0] + ids[1]) or set(ids[0]) & set(ids[1]):
                self.V("C36", "relationship_history_is_not_net_change", "%s #%s.%s currently holds %s but its history is %s"
                       % (e["cls"], pk, an, [OS.pk_of(x) for x in cur], desc()))
                continue
            if r["kind"] == "m2m":
                t2, own, oth = r["assoc"]
                cols = self.U["tables"][t2]
                committed = sorted(rr[cols.index(oth)] for rr in tabs[t2].values() if rr[cols.index(own)] == pk)
            elif r["kind"] in ("o2m", "o2o"):
                t2, col = r["fk"]
                cols = self.U["tables"][t2]
                committed = sorted(k for k, rr in tabs[t2].items() if rr[cols.index(col)] == pk)
            else:
                t2, col = r["fk"]
                row = tabs[t2].get(pk)
                if row is None:
                    continue
                fk = row[self.U["tables"][t2].index(col)]
                committed = [fk] if fk is not None else []
            was = sorted(OS.pk_of(x) for x in parts[1] + parts[2])
            if any(p is None for p in was):
                self.V("C36", "relationship_history_is_not_net_change", "%s #%s.%s reports a member without identity as unchanged/deleted: %s"
                       % (e["cls"], pk, an, desc()))
                continue
            if r["kind"] == "m2o":
                # without active history the previous value of a replaced many-to-one may be unknown (not loaded): 'deleted' may be empty
                good = set(was) <= set(committed) and (not parts[1] or was == committed)
            else:
                good = was == committed
            if not good:
                self.V("C36", "relationship_history_is_not_net_change", "%s #%s.%s: the rows of the last flush hold %s, but unchanged+deleted "
                       "of the history is %s (%s)" % (e["cls"], pk, an, committed, was, desc()))

    def check_history_vs_updates(self, hist):
        """C36: a flush persists exactly the net difference: no UPDATE sets a column whose value did not change"""
        changed = {}
        for tab, pk, an, ch, known in hist:
            changed.setdefault((tab, pk), {})[an] = (ch, known)
        import re
        for stmt, params in self.sql:
            mobj = re.match(r"UPDATE (\w+) SET (.+?) WHERE", stmt)
            if not mobj:
                continue
            tab = mobj.group(1)
            setcols = [c.split("=")[0].strip() for c in mobj.group(2).split(",")]
            plist = params if isinstance(params, list) else [params]
            for p in plist:
                pk = p[-1] if isinstance(p, (tuple, list)) else None
                info = changed.get((tab, pk))
                if info is None:
                    continue
                for c in setcols:
                    if c in info and not info[c][0] and info[c][1]:
                        self.V("C36", "update_of_unchanged_column", "flush emitted UPDATE %s SET %s for #%s although the net change of that "
                               "attribute is empty" % (tab, c, pk))

    def check_dropped(self, now):
        pass
