"""Import SQLAlchemy from /repo/lib as it is on disk *now*, pure-Python only.

* /repo/lib goes first on sys.path and we assert sqlalchemy was imported from it.
* A meta-path finder maps every ``sqlalchemy.*_cy`` module to its ``.py`` source so a
  stale pre-built ``.so`` can never shadow an edited source file and the tracer can
  see inside those modules (DESIGN 2.1).
* bytecode writing is disabled so nothing is written under /repo.
"""
import importlib.abc
import importlib.machinery
import importlib.util
import os
import sys

REPO = os.environ.get("VERIF_REPO", "/repo")
REPO_LIB = os.path.join(REPO, "lib")
GUARD = "SQLALCHEMY_VERIF_SIM"

sys.dont_write_bytecode = True


class _PurePyFinder(importlib.abc.MetaPathFinder):
    def find_spec(self, fullname, path, target=None):
        if fullname.startswith("sqlalchemy.") and fullname.endswith("_cy"):
            p = os.path.join(REPO_LIB, *fullname.split(".")) + ".py"
            if os.path.exists(p):
                return importlib.util.spec_from_file_location(
                    fullname, p, loader=importlib.machinery.SourceFileLoader(fullname, p)
                )
        return None


_done = False


def boot():
    global _done
    if _done:
        return
    _done = True
    os.environ.setdefault(GUARD, "1")
    if "sqlalchemy" in sys.modules:
        raise RuntimeError("sqlalchemy imported before simfw.boot.boot()")
    sys.meta_path.insert(0, _PurePyFinder())
    sys.path.insert(0, REPO_LIB)
    import sqlalchemy  # noqa

    f = os.path.realpath(sqlalchemy.__file__)
    if not f.startswith(os.path.realpath(REPO_LIB) + os.sep):
        raise RuntimeError(f"sqlalchemy imported from {f}, not {REPO_LIB}")
    from sqlalchemy.util import has_compiled_ext

    if has_compiled_ext():
        raise RuntimeError("compiled extensions active; pure-python loader failed")
    import logging
    import warnings

    logging.disable(logging.CRITICAL)
    warnings.simplefilter("ignore")
