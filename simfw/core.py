"""Framework core: seeds, worker pool with watchdog, aggregation, evidence, replay,
delta-debugging minimiser, known-findings matcher.

A property module (``props/cNN.py``) provides:

    ID, LEVEL, TECHNIQUE
    TIERS = {"quick": {"runs": int, "secs": float}, "thorough": {...}}
    setup()                          once per worker process, after boot()
    gen_case(rng, tier) -> dict      JSON-serialisable explicit case (config, program, faults, schedule)
    run_case(case) -> dict           pure function of the case (and /repo):
         {"viol": [{"oracle": str, "sig": str, "detail": ...}],
          "digest": str, "nontrivial": bool,
          "counters": {str: int}, "sets": {str: [hashable, ...]}}
    derive_cases(case, res) -> iterable of cases    (optional: fault enumeration over a clean run)
    SHRINK = ["prog", "faults", ...]  list-valued keys of the case that ddmin may thin out
    simplify(case) -> iterable of simpler cases      (optional)
    COMPONENTS_REAL / COMPONENTS_STUB / ASSUMPTIONS / RULE   strings for the evidence file
"""
import collections
import faulthandler
import hashlib
import importlib
import json
import multiprocessing
import os
import random
import re
import subprocess
import sys
import time
import traceback

VERIF = os.path.dirname(os.path.dirname(os.path.abspath(__file__)))
PY = sys.executable
DEFAULT_SEED = 20260921
PER_RUN_HANG_S = 120


# ----------------------------------------------------------------- seeds

def h64(*parts):
    h = hashlib.blake2b(repr(parts).encode(), digest_size=8).digest()
    return int.from_bytes(h, "big")


def derive_seed(master, prop, idx):
    return h64("run", int(master), prop, int(idx))


def digest_of(obj):
    return hashlib.blake2b(
        json.dumps(obj, sort_keys=True, default=repr).encode(), digest_size=8
    ).hexdigest()


def jsonable(case):
    return json.loads(json.dumps(case))


def load_module(pid):
    return importlib.import_module("props." + pid.lower())


# ----------------------------------------------------------------- known findings

def load_known():
    path = os.path.join(VERIF, "known_findings.jsonl")
    out = []
    if os.path.exists(path):
        for line in open(path):
            line = line.strip()
            if line and not line.startswith("#"):
                out.append(json.loads(line))
    return out


def match_known(known, pid, v):
    """A violation is a known finding only if a *known* (not fixed) entry of the same
    property names the same oracle and its pattern matches the violation signature."""
    for k in known:
        if k.get("status") != "known" or k.get("property") != pid:
            continue
        m = k.get("match", {})
        if m.get("oracle") != v.get("oracle"):
            continue
        if re.search(m.get("pattern", ""), v.get("sig", "")):
            return k
    return None


# ----------------------------------------------------------------- running one case

class HarnessError(Exception):
    pass


def run_guarded(mod, case):
    faulthandler.dump_traceback_later(PER_RUN_HANG_S, exit=True)
    try:
        res = mod.run_case(case)
    finally:
        faulthandler.cancel_dump_traceback_later()
    res.setdefault("viol", [])
    res.setdefault("counters", {})
    res.setdefault("sets", {})
    res.setdefault("nontrivial", True)
    if "digest" not in res:
        raise HarnessError("run_case returned no digest")
    return res


def first_unknown(known, pid, res):
    for v in res["viol"]:
        if not match_known(known, pid, v):
            return v
    return None


# ----------------------------------------------------------------- minimisation (ddmin)

def _same(mod, case, oracle, stats):
    stats["replays"] += 1
    try:
        r = run_guarded(mod, case)
    except HarnessError:
        raise
    except Exception:
        return None
    for v in r["viol"]:
        if v["oracle"] == oracle:
            return v
    return None


def minimize(mod, case, viol, budget=200):
    """Delta-debug the explicit lists of a failing case while the *same oracle* fires."""
    oracle = viol["oracle"]
    stats = {"replays": 0}
    best, bestv = case, viol
    fields = [f for f in getattr(mod, "SHRINK", []) if isinstance(case.get(f), list)]

    def try_case(c):
        nonlocal best, bestv
        if stats["replays"] >= budget:
            return False
        c = jsonable(c)
        v = _same(mod, c, oracle, stats)
        if v is not None:
            best, bestv = c, v
            return True
        return False

    changed = True
    while changed and stats["replays"] < budget:
        changed = False
        for f in fields:
            n = 2
            while len(best[f]) >= 1 and stats["replays"] < budget:
                items = best[f]
                chunk = max(1, len(items) // n)
                reduced = False
                for start in range(0, len(items), chunk):
                    cand = dict(best)
                    cand[f] = items[:start] + items[start + chunk:]
                    if try_case(cand):
                        reduced = changed = True
                        n = max(n - 1, 2)
                        break
                if not reduced:
                    if chunk == 1:
                        break
                    n = min(len(items), n * 2)
        simp = getattr(mod, "simplify", None)
        if simp is not None:
            for cand in simp(best):
                if stats["replays"] >= budget:
                    break
                if try_case(cand):
                    changed = True
                    break
    # schedule minimisation: turn a seeded schedule into its explicit switch list, then thin that out
    conv = getattr(mod, "explicit_of", None)
    if conv is not None and stats["replays"] < budget:
        try:
            r = run_guarded(mod, best)
            cand = jsonable(conv(best, r))
        except Exception:
            cand = None
        if cand is not None and try_case(cand):
            for f in [f for f in getattr(mod, "SHRINK", []) if isinstance(best.get(f), list)]:
                n = 2
                while len(best[f]) >= 1 and stats["replays"] < budget:
                    items = best[f]
                    chunk = max(1, len(items) // n)
                    reduced = False
                    for start in range(0, len(items), chunk):
                        cand = dict(best)
                        cand[f] = items[:start] + items[start + chunk:]
                        if try_case(cand):
                            reduced = True
                            n = max(n - 1, 2)
                            break
                    if not reduced:
                        if chunk == 1:
                            break
                        n = min(len(items), n * 2)
    best = dict(best)
    best["_minimised"] = {"replays": stats["replays"], "from_sizes": {f: len(case[f]) for f in fields},
                          "to_sizes": {f: len(best[f]) for f in fields if isinstance(best.get(f), list)}}
    return best, bestv


# ----------------------------------------------------------------- aggregation

class Agg:
    def __init__(self):
        self.evals = 0
        self.base_cases = 0
        self.digests = set()
        self.nontrivial = set()
        self.counters = collections.Counter()
        self.sets = collections.defaultdict(set)
        self.samples = []
        self.violations = []   # (case, viol)
        self.known = []        # (case, viol, known_id)
        self.first_idx = None
        self.last_idx = None
        self.errors = []

    def add(self, case, res, sample=False):
        self.evals += 1
        d = res["digest"]
        self.digests.add(d)
        if res["nontrivial"]:
            self.nontrivial.add(d)
        for k, v in res["counters"].items():
            self.counters[k] += v
        for k, v in res["sets"].items():
            s = self.sets[k]
            for x in v:
                s.add(x if isinstance(x, (str, int)) else digest_of(x))
        if sample and len(self.samples) < 2:
            self.samples.append({"case": case, "digest": d, "counters": res["counters"],
                                 "trace": res.get("trace", [])[:40]})

    def merge(self, o):
        self.evals += o.evals
        self.base_cases += o.base_cases
        self.digests |= o.digests
        self.nontrivial |= o.nontrivial
        self.counters.update(o.counters)
        for k, v in o.sets.items():
            self.sets[k] |= v
        self.samples.extend(o.samples)
        self.violations.extend(o.violations)
        self.known.extend(o.known)
        self.errors.extend(o.errors)
        for a in ("first_idx",):
            if o.first_idx is not None:
                self.first_idx = o.first_idx if self.first_idx is None else min(self.first_idx, o.first_idx)
        if o.last_idx is not None:
            self.last_idx = o.last_idx if self.last_idx is None else max(self.last_idx, o.last_idx)


def worker_loop(mod, pid, shard, nshards, master, tier, runs, deadline, known, stop_on_violation=True):
    agg = Agg()
    idx = shard
    while idx < runs and time.time() < deadline:
        seed = derive_seed(master, pid, idx)
        rng = random.Random(seed)
        case = mod.gen_case(rng, tier)
        case["seed"] = seed
        case["idx"] = idx
        case = jsonable(case)
        agg.base_cases += 1
        if agg.first_idx is None:
            agg.first_idx = idx
        agg.last_idx = idx
        res = run_guarded(mod, case)
        agg.add(case, res, sample=True)

        def handle(c, r):
            """record violations of one run; True if an unlisted violation was found"""
            v = first_unknown(known, pid, r)
            if v is None:
                for kv in r["viol"]:
                    agg.known.append((c, kv, match_known(known, pid, kv)["id"]))
                return False
            mc, mv = minimize(mod, c, v, budget=getattr(mod, "MIN_BUDGET", 150))
            k = match_known(known, pid, mv)
            if k is not None:
                agg.known.append((mc, mv, k["id"]))
                return False
            agg.violations.append((mc, mv))
            return True

        stop = False
        if res["viol"]:
            stop = handle(case, res)
        derive = getattr(mod, "derive_cases", None)
        if derive is not None and not res["viol"]:
            for dc in derive(case, res):
                if time.time() >= deadline + 30:
                    agg.counters["derive_truncated_by_deadline"] += 1
                    break
                dc = jsonable(dc)
                dr = run_guarded(mod, dc)
                agg.add(dc, dr, sample=(len(agg.samples) < 2))
                if dr["viol"] and handle(dc, dr):
                    stop = True
                    break
        if stop:
            break
        idx += nshards
    return agg


def _child(mod_id, shard, nshards, master, tier, runs, deadline, known, conn, hard_s):
    try:
        faulthandler.enable()
        mod = load_module(mod_id)
        agg = worker_loop(mod, mod_id, shard, nshards, master, tier, runs, deadline, known)
        conn.send(("ok", agg))
    except BaseException:
        try:
            conn.send(("err", traceback.format_exc()))
        except Exception:
            pass
    finally:
        conn.close()
        os._exit(0)


def run_group(pid, master, tier, runs, secs, jobs, shard0, nshards_total, known):
    """Fork `jobs` workers in this interpreter (hash seed fixed by the parent)."""
    from . import boot

    boot.boot()
    mod = load_module(pid)
    if hasattr(mod, "setup"):
        mod.setup()
    ctx = multiprocessing.get_context("fork")
    deadline = time.time() + secs
    hard = secs + max(90, secs * 0.5)
    procs = []
    for j in range(jobs):
        a, b = ctx.Pipe(duplex=False)
        p = ctx.Process(target=_child, args=(pid, shard0 + j, nshards_total, master, tier, runs,
                                             deadline, known, b, hard))
        p.start()
        b.close()
        procs.append((p, a))
    total = Agg()
    t_end = time.time() + hard
    for p, a in procs:
        remaining = max(0.1, t_end - time.time())
        if a.poll(remaining):
            try:
                kind, payload = a.recv()
            except EOFError:
                kind, payload = "err", "worker died without result (exit %s)" % p.exitcode
        else:
            kind, payload = "err", "worker timed out (hard limit %.0fs)" % hard
            p.kill()
        if kind == "ok":
            total.merge(payload)
        else:
            total.errors.append(payload)
        p.join(5)
        if p.is_alive():
            p.kill()
    return total


# ----------------------------------------------------------------- orchestration

def _group_cmd(pid, master, tier, runs, secs, jobs, shard0, nshards, out):
    return [PY, os.path.join(VERIF, "check"), pid, "--_group", "--seed", str(master), "--tier", tier,
            "--runs", str(runs), "--secs", str(secs), "--jobs", str(jobs), "--shard0", str(shard0),
            "--nshards", str(nshards), "--out", out]


def repo_head():
    try:
        return subprocess.run(["git", "-C", "/repo", "rev-parse", "--short", "HEAD"], capture_output=True,
                              text=True, timeout=10).stdout.strip()
    except Exception:
        return "?"


def run_check(pid, tier, master, runs=None, secs=None, jobs=None, hashseeds=None):
    import pickle
    import tempfile

    from . import boot
    boot.boot()
    mod = load_module(pid)
    tcfg = dict(mod.TIERS[tier])
    if runs is not None:
        tcfg["runs"] = runs
    if secs is not None:
        tcfg["secs"] = secs
    ncpu = os.cpu_count() or 4
    jobs = jobs or min(16, ncpu)
    hashseeds = hashseeds or tcfg.get("hashseeds", [0])
    hashseeds = hashseeds[: max(1, jobs)]
    per = max(1, jobs // len(hashseeds))
    known = load_known()
    t0 = time.time()
    tmpd = tempfile.mkdtemp(prefix="verif-%s-" % pid, dir="/dev/shm" if os.path.isdir("/dev/shm") else None)
    groups = []
    nshards = per * len(hashseeds)
    for gi, hs in enumerate(hashseeds):
        out = os.path.join(tmpd, "g%d.pkl" % gi)
        env = dict(os.environ)
        env["PYTHONHASHSEED"] = str(hs)
        cmd = _group_cmd(pid, master, tier, tcfg["runs"], tcfg["secs"], per, gi * per, nshards, out)
        groups.append((subprocess.Popen(cmd, env=env, cwd=VERIF), out, hs))
    total = Agg()
    hard = tcfg["secs"] * 1.5 + 240
    for p, out, hs in groups:
        try:
            rc = p.wait(timeout=max(1, t0 + hard - time.time()))
        except subprocess.TimeoutExpired:
            p.kill()
            rc = -9
        if rc != 0 or not os.path.exists(out):
            total.errors.append("group hashseed=%s exited %s" % (hs, rc))
            continue
        with open(out, "rb") as f:
            total.merge(pickle.load(f))
    import shutil
    shutil.rmtree(tmpd, ignore_errors=True)
    wall = time.time() - t0

    # ---- violations: write replay files, verify them in a fresh interpreter
    exit_code = 0
    lines = []
    seen_sig = set()
    reported = 0
    for case, v in total.violations:
        key = (v["oracle"],)
        if key in seen_sig or reported >= 3:
            continue
        seen_sig.add(key)
        path = write_replay(pid, case, v)
        ok, out = verify_replay(pid, path, v)
        if not ok:
            total.errors.append("replay of %s did not reproduce oracle %s:\n%s" % (path, v["oracle"], out[-2000:]))
            continue
        reported += 1
        lines.append("VIOLATION property=%s replay=%s oracle=%s sig=%s" % (pid, path, v["oracle"], v.get("sig", "")[:200]))
        exit_code = 1
    known_seen = {}
    for case, v, kid in total.known:
        known_seen.setdefault(kid, (case, v))
    for kid, (case, v) in sorted(known_seen.items()):
        lines.append("KNOWN-FINDING: property=%s id=%s oracle=%s %s" % (pid, kid, v["oracle"], v.get("sig", "")[:200]))
    if total.errors and exit_code == 0:
        exit_code = 2
    write_evidence(mod, pid, tier, master, total, wall, hashseeds, jobs, tcfg, known_seen)
    for ln in lines:
        print(ln)
    for e in total.errors:
        print("HARNESS-ERROR property=%s %s" % (pid, e.strip().splitlines()[-1] if e.strip() else e))
        sys.stderr.write(e + "\n")
    print("%s tier=%s seed=%d evals=%d base=%d distinct=%d nontrivial=%d violations=%d known=%d wall=%.1fs exit=%d"
          % (pid, tier, master, total.evals, total.base_cases, len(total.digests), len(total.nontrivial),
             len(total.violations), len(known_seen), wall, exit_code))
    return exit_code


def write_replay(pid, case, v):
    d = os.path.join(VERIF, "replays")
    os.makedirs(d, exist_ok=True)
    path = os.path.join(d, "%s-%s-%s.json" % (pid, case.get("seed", "x"), v["oracle"].replace("/", "_")))
    with open(path, "w") as f:
        json.dump({"property": pid, "seed": case.get("seed"), "idx": case.get("idx"),
                   "hashseed": int(os.environ.get("PYTHONHASHSEED", "0") or 0),
                   "repo_head": repo_head(), "violation": v, "case": case}, f, indent=1, default=repr)
    return path


def verify_replay(pid, path, v):
    env = dict(os.environ)
    p = subprocess.run([PY, os.path.join(VERIF, "check"), pid, "--replay", path], env=env, cwd=VERIF,
                       capture_output=True, text=True, timeout=600)
    ok = p.returncode == 1 and ("oracle=%s" % v["oracle"]) in p.stdout
    return ok, p.stdout + p.stderr


def replay(pid, path):
    from . import boot
    boot.boot()
    mod = load_module(pid)
    if hasattr(mod, "setup"):
        mod.setup()
    data = json.load(open(path))
    case = data["case"]
    res = run_guarded(mod, case)
    known = load_known()
    rc = 0
    for v in res["viol"]:
        k = match_known(known, pid, v)
        if k:
            print("KNOWN-FINDING: property=%s id=%s oracle=%s %s" % (pid, k["id"], v["oracle"], v.get("sig", "")[:200]))
        else:
            print("VIOLATION property=%s replay=%s oracle=%s sig=%s" % (pid, path, v["oracle"], v.get("sig", "")[:200]))
            rc = 1
    print("replay digest=%s viol=%d" % (res["digest"], len(res["viol"])))
    if os.environ.get("VERIF_VERBOSE"):
        print(json.dumps(res.get("trace", []), indent=1, default=repr))
        print(json.dumps(res["viol"], indent=1, default=repr))
    return rc


def write_evidence(mod, pid, tier, master, total, wall, hashseeds, jobs, tcfg, known_seen):
    # sensitivity runs against a deliberately broken tree (tools/runmut.sh) must not overwrite the evidence of the real tree
    d = os.environ.get("VERIF_EVIDENCE_DIR") or os.path.join(VERIF, "evidence")
    os.makedirs(d, exist_ok=True)
    cov = {
        "evaluations": total.evals,
        "distinct_nontrivial": len(total.nontrivial),
        "rule": getattr(mod, "RULE", ""),
        "samples": total.samples[:3],
        "base_histories": total.base_cases,
        "distinct_digests": len(total.digests),
        "runs_per_hour": int(total.evals / wall * 3600) if wall > 0 else 0,
        "seeds": {"master": master, "first_idx": total.first_idx, "last_idx": total.last_idx,
                  "derivation": "blake2b('run', master, property, idx)"},
        "counters": dict(sorted(total.counters.items())),
        "faults_fired": {k[6:]: v for k, v in sorted(total.counters.items()) if k.startswith("fault:")},
        "probes": {k[6:]: v for k, v in sorted(total.counters.items()) if k.startswith("probe:")},
        "distinct_sets": {k: len(v) for k, v in sorted(total.sets.items())},
        "sim_steps_total": total.counters.get("steps", 0),
        "virtual_seconds_total": round(total.counters.get("vtime_us", 0) / 1e6, 3),
        "hashseeds": hashseeds,
        "workers": jobs,
        "budget": tcfg,
        "components_real": getattr(mod, "COMPONENTS_REAL", []),
        "components_stub": getattr(mod, "COMPONENTS_STUB", []),
        "known_findings_matched": sorted(known_seen),
        "harness_errors": len(total.errors),
        "repo_head": repo_head(),
        "python": sys.version.split()[0],
        "exhaustive": False,
    }
    if hasattr(mod, "evidence_extra"):
        cov.update(mod.evidence_extra(total))
    ev = {
        "property_id": pid,
        "tier": tier,
        "seed": int(master),
        "level": mod.LEVEL,
        "coverage": cov,
        "assumptions": getattr(mod, "ASSUMPTIONS", []),
        "wall_s": round(wall, 2),
        "violations": len(total.violations),
    }
    tmp = os.path.join(d, pid + ".json.tmp")
    with open(tmp, "w") as f:
        json.dump(ev, f, indent=1, default=repr)
    os.replace(tmp, os.path.join(d, pid + ".json"))


# ----------------------------------------------------------------- determinism self-test helper

def digests_for(pid, master, tier, idxs):
    """digest of every base run (and derived runs) for the given indices, in this process."""
    from . import boot
    boot.boot()
    mod = load_module(pid)
    if hasattr(mod, "setup"):
        mod.setup()
    out = []
    for idx in idxs:
        seed = derive_seed(master, pid, idx)
        case = mod.gen_case(random.Random(seed), tier)
        case["seed"] = seed
        case["idx"] = idx
        case = jsonable(case)
        res = run_guarded(mod, case)
        ds = [res["digest"], len(res["viol"])]
        derive = getattr(mod, "derive_cases", None)
        if derive is not None:
            n = 0
            for dc in derive(case, res):
                dr = run_guarded(mod, jsonable(dc))
                ds.append(dr["digest"])
                n += 1
                if n >= 25:
                    break
        out.append([idx, ds])
    return out
