"""Fault-injecting proxy over stdlib sqlite3, handed to SQLAlchemy with create_engine(..., module=proxy).

Every DBAPI call is a numbered *point*; a fault plan addresses points by (kind-or-predicate, ordinal):
    kind      : connect execute executemany fetchone fetchmany fetchall commit rollback close cursor_close
    predicate : "execute:INSERT INTO b"  (prefix of the whitespace-normalised, upper-cased SQL)
Fault kinds  : error (sqlite3.OperationalError, before effect)
               disconnect (the real connection is closed, then sqlite3 itself / the proxy raises
                           ProgrammingError("Cannot operate on a closed database."))
               integrity (sqlite3.IntegrityError, before effect)
               lost_ack (statement applied, then OperationalError) - only for relaxed oracles
               base (KeyboardInterrupt-like; non-verdict)
               short (fetchmany only: a legal short read - fewer rows than asked while more remain)
The proxy keeps a registry of every connection it opened (open/closed, in_transaction via the raw object) and
offers a side channel: `raw(conn)` returns the underlying sqlite3 connection for ground-truth probes.
"""
import sqlite3
import types


class PExit(BaseException):
    pass


def norm_sql(sql):
    return " ".join(str(sql).split()).upper()


class Plan:
    def __init__(self, faults=(), on_point=None):
        self.calls = []        # (kind, sqlhead, conn_id)
        self.count = {}
        self.plan = {}
        self.preds = []
        for f in faults:
            key, n, kind = f[0], int(f[1]), f[2]
            self.plan[(key, n)] = kind
            if ":" in key:
                self.preds.append(key)
        self.fired = []
        self.enabled = True
        self.on_point = on_point
        self.on_fire = None
        self.conns = []
        self.arraysize = None      # override for cursor.arraysize
        self.log_sql = []

    def point(self, kind, conn, sql=None):
        if self.on_point is not None:
            self.on_point(kind, conn, sql)
        head = None
        keys = [kind]
        if sql is not None:
            ns = norm_sql(sql)
            head = ns[:60]
            for p in self.preds:
                k, pref = p.split(":", 1)
                if k == kind and ns.startswith(pref):
                    keys.append(p)
        fired = None
        for k in keys:
            n = self.count.get(k, 0) + 1
            self.count[k] = n
            if self.enabled and fired is None:
                f = self.plan.get((k, n))
                if f is not None:
                    fired = f
                    self.fired.append((k, n, f, conn.id if conn is not None else -1))
                    if self.on_fire is not None:
                        self.on_fire(k, n, f, conn)
        self.calls.append((kind, head, conn.id if conn is not None else -1, self.count[kind]))
        return fired


def _raise(f, kind, conn, before=True):
    if f == "error":
        raise sqlite3.OperationalError("injected error at %s" % kind)
    if f == "integrity":
        raise sqlite3.IntegrityError("injected integrity error at %s" % kind)
    if f == "disconnect":
        if conn is not None:
            conn.kill()
        raise sqlite3.ProgrammingError("Cannot operate on a closed database.")
    if f == "base":
        raise PExit(kind)


class PCursor:
    def __init__(self, conn, real):
        self._conn = conn
        self._c = real
        self._plan = conn._plan
        self.closed = False
        conn.cursors_opened += 1
        if self._plan.arraysize is not None:
            self._c.arraysize = self._plan.arraysize

    def execute(self, sql, params=()):
        f = self._plan.point("execute", self._conn, sql)
        if f in ("error", "integrity", "disconnect", "base"):
            _raise(f, "execute", self._conn)
        self._plan.log_sql.append((self._conn.id, sql, params))
        self._c.execute(sql, params)
        if f == "lost_ack":
            raise sqlite3.OperationalError("injected lost acknowledgement at execute")
        return self

    def executemany(self, sql, seq):
        f = self._plan.point("executemany", self._conn, sql)
        if f in ("error", "integrity", "disconnect", "base"):
            _raise(f, "executemany", self._conn)
        seq = list(seq)
        self._plan.log_sql.append((self._conn.id, sql, seq))
        self._c.executemany(sql, seq)
        return self

    def fetchone(self):
        f = self._plan.point("fetchone", self._conn)
        _raise(f, "fetchone", self._conn)
        return self._c.fetchone()

    def fetchmany(self, size=None):
        f = self._plan.point("fetchmany", self._conn)
        if f != "short":
            _raise(f, "fetchmany", self._conn)
        n = size if size is not None else self._c.arraysize
        if f == "short" and n > 1:
            n = max(1, n // 2)
        return self._c.fetchmany(n)

    def fetchall(self):
        f = self._plan.point("fetchall", self._conn)
        _raise(f, "fetchall", self._conn)
        return self._c.fetchall()

    def close(self):
        f = self._plan.point("cursor_close", self._conn)
        if not self.closed:
            self.closed = True
            self._conn.cursors_closed += 1
        try:
            self._c.close()
        except sqlite3.ProgrammingError:
            pass
        if f == "error":
            raise sqlite3.OperationalError("injected error at cursor close")

    @property
    def description(self):
        return self._c.description

    @property
    def rowcount(self):
        return self._c.rowcount

    @property
    def lastrowid(self):
        return self._c.lastrowid

    @property
    def arraysize(self):
        return self._c.arraysize

    @arraysize.setter
    def arraysize(self, v):
        self._c.arraysize = v

    def __iter__(self):
        return iter(self._c)

    def __getattr__(self, k):
        return getattr(self._c, k)


class PConn:
    def __init__(self, real, plan):
        d = self.__dict__
        d["_real"] = real
        d["_plan"] = plan
        d["id"] = len(plan.conns)
        d["closed"] = False
        d["close_called"] = 0
        d["killed"] = False
        d["cursors_opened"] = 0
        d["cursors_closed"] = 0
        plan.conns.append(self)

    def kill(self):
        """server side gone: the underlying handle is really closed"""
        if not self.__dict__["closed"]:
            self.__dict__["killed"] = True
            try:
                self._real.close()
            except Exception:
                pass

    def cursor(self, *a, **k):
        return PCursor(self, self._real.cursor(*a, **k))

    def execute(self, sql, params=()):
        c = self.cursor()
        return c.execute(sql, params)

    def commit(self):
        f = self._plan.point("commit", self)
        if f in ("error", "disconnect", "base", "integrity"):
            _raise(f, "commit", self)
        self._real.commit()
        if f == "lost_ack":
            raise sqlite3.OperationalError("injected lost acknowledgement at commit")

    def rollback(self):
        f = self._plan.point("rollback", self)
        _raise(f, "rollback", self)
        self._real.rollback()

    def close(self):
        self.__dict__["close_called"] += 1
        f = self._plan.point("close", self)
        if f == "error":
            raise sqlite3.OperationalError("injected error at close")
        if f == "base":
            raise PExit("close")
        self._real.close()
        self.__dict__["closed"] = True

    def __getattr__(self, k):
        return getattr(self.__dict__["_real"], k)

    def __setattr__(self, k, v):
        if k in self.__dict__:
            self.__dict__[k] = v
        else:
            setattr(self._real, k, v)

    def __repr__(self):
        return "<PConn %d>" % self.id


def raw(conn):
    """ground-truth side channel: the sqlite3.Connection below a proxy / pool fairy / SQLAlchemy Connection"""
    c = conn
    for attr in ("connection", "dbapi_connection", "driver_connection"):
        nxt = getattr(c, attr, None)
        if nxt is not None and not isinstance(c, PConn):
            c = nxt
    while not isinstance(c, PConn):
        c = getattr(c, "dbapi_connection", None) or getattr(c, "_real")
    return c._real


def make_module(plan):
    m = types.ModuleType("simsqlite")
    for k in dir(sqlite3):
        if not k.startswith("__"):
            setattr(m, k, getattr(sqlite3, k))

    def connect(*a, **kw):
        pl = m.plan            # looked up at call time: a long-lived engine can be given a fresh Plan per run
        f = pl.point("connect", None)
        _raise(f, "connect", None)
        return PConn(sqlite3.connect(*a, **kw), pl)

    m.connect = connect
    m.plan = plan
    return m
