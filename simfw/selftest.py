"""Determinism self-test: the same run indices must give the same digests
 (a) in two fresh interpreters, (b) when the indices are split across processes in a
 different grouping/order (catches state leaking from one run into the next),
 (c) under a second PYTHONHASHSEED run against itself.
Any difference is a harness error (exit 2)."""
import json
import os
import subprocess
import sys
from concurrent.futures import ThreadPoolExecutor

from . import core


def _digests(pid, seed, tier, idxs, hashseed):
    env = dict(os.environ, PYTHONHASHSEED=str(hashseed))
    p = subprocess.run([core.PY, os.path.join(core.VERIF, "check"), pid, "--_digests", ",".join(map(str, idxs)),
                        "--seed", str(seed), "--tier", tier], env=env, cwd=core.VERIF, capture_output=True, text=True,
                       timeout=1200)
    if p.returncode != 0:
        raise RuntimeError("digest run failed for %s: %s" % (pid, (p.stdout + p.stderr)[-1500:]))
    return {i: d for i, d in json.loads(p.stdout.strip().splitlines()[-1])}


def one(pid, seed, tier, n):
    idxs = list(range(n))
    problems = []
    a = _digests(pid, seed, tier, idxs, 0)
    half = n // 2
    b = {}
    b.update(_digests(pid, seed, tier, list(reversed(idxs[half:])), 0))
    b.update(_digests(pid, seed, tier, idxs[:half], 0))
    for i in idxs:
        if a[i] != b[i]:
            problems.append("%s idx %d: digests differ between groupings (hashseed 0)" % (pid, i))
    c1 = _digests(pid, seed, tier, idxs, 7)
    c2 = _digests(pid, seed, tier, list(reversed(idxs)), 7)
    for i in idxs:
        if c1[i] != c2[i]:
            problems.append("%s idx %d: digests differ between two runs under hashseed 7" % (pid, i))
    cross = sum(1 for i in idxs if a[i] != c1[i])
    return pid, problems, cross, n


def main(ids, tier, seed):
    if not ids:
        ids = sorted(f[:-3].upper() for f in os.listdir(os.path.join(core.VERIF, "props"))
                     if f.startswith("c") and f.endswith(".py"))
    n = 6 if tier == "quick" else 120
    rc = 0
    with ThreadPoolExecutor(max_workers=min(8, len(ids))) as ex:
        for pid, problems, cross, n in ex.map(lambda p: one(p, seed, tier, n), ids):
            if problems:
                rc = 2
                for p in problems[:10]:
                    print("NONDETERMINISM", p)
            print("selftest-determinism %s: %d indices x (2 groupings @hashseed0 + 2 runs @hashseed7): %s; "
                  "%d indices differ across hash seeds (allowed, recorded)" % (pid, n, "FAIL" if problems else "ok", cross))
    return rc
