"""ormsim — the ORM Session as a state machine driven against real SQLite, with ground-truth probes.

One simulator serves C30-C37, C39, C45-C49.  A seeded history of session operations (state-relative arguments, so any
subsequence is still a valid program) is interpreted on a real Session bound to a tmpfs SQLite file (FK enforcement ON).
Oracles are of two kinds (DESIGN §6 group D):
  * self-consistency — the in-memory state of the objects the session holds *is* the specification of the rows (C30), both sides
    of a relationship specify each other (C37), lifecycle events must form a walk from the observed state before an operation to
    the observed state after it (C35), loaded attribute values must equal the probed rows after commit/rollback (C33/C46), ...
  * rule functions evaluated on the real objects' *loaded* state (inspect(obj).dict, never triggering loads): save-update / delete /
    orphan closures (C39), net-change history (C36), snapshot of membership at savepoints (C33).
Every violation is tagged with the property it belongs to; a property's check counts only its own tag (cross-observations are
tabulated) so one defect does not turn fifteen checks red.
"""
import gc
import os
import pickle
import shutil
import sqlite3
import tempfile
import warnings

_m = {}
_dir = [None]

CASCADES = {
    "U0": {"bs": "save-update, merge", "fk_nullable": True},
    "U1": {"bs": "all", "fk_nullable": True},
    "U2": {"bs": "all, delete-orphan", "fk_nullable": False},
    "U3": {"bs": "all, delete-orphan", "fk_nullable": True},
}


def setup():
    if _m:
        return _m
    from sqlalchemy import (Column, Integer, String, ForeignKey, Table, create_engine, event, inspect, select, exc, JSON, text, update,
                            PickleType)
    from sqlalchemy.orm import (Session, declarative_base, relationship, backref, attributes, object_session, make_transient, exc as orm_exc,
                                attribute_keyed_dict)
    from sqlalchemy.ext.mutable import MutableDict, MutableList, MutableSet, MutableComposite
    from sqlalchemy.orm import composite, deferred
    from sqlalchemy.pool import QueuePool

    class Point(MutableComposite):
        """the MutableComposite recipe of the documentation (ext/mutable.py), picklable"""
        def __init__(self, x, y):
            self.x = x
            self.y = y

        def __setattr__(self, key, value):
            object.__setattr__(self, key, value)
            self.changed()

        def __composite_values__(self):
            return self.x, self.y

        def __eq__(self, other):
            return isinstance(other, Point) and other.x == self.x and other.y == self.y

        def __ne__(self, other):
            return not self.__eq__(other)

        def __hash__(self):
            return hash((self.x, self.y))

        def __getstate__(self):
            return self.x, self.y

        def __setstate__(self, state):
            self.x, self.y = state

        def __repr__(self):
            return "Point(%r, %r)" % (self.x, self.y)

    Point.__module__, Point.__qualname__ = __name__, "Point"
    globals()["Point"] = Point
    _m.update(locals())
    _m["universes"] = {name: _universe(name, cfg) for name, cfg in CASCADES.items()}
    _dir[0] = tempfile.mkdtemp(prefix="verif-orm-", dir="/dev/shm" if os.path.isdir("/dev/shm") else None)
    import atexit
    atexit.register(lambda: shutil.rmtree(_dir[0], ignore_errors=True))
    return _m


def _universe(name, cfg):
    Column, Integer, String, ForeignKey, Table, JSON = _m["Column"], _m["Integer"], _m["String"], _m["ForeignKey"], _m["Table"], _m["JSON"]
    relationship, backref, MutableDict, MutableList = _m["relationship"], _m["backref"], _m["MutableDict"], _m["MutableList"]
    MutableSet, composite, Point, PickleType = _m["MutableSet"], _m["composite"], _m["Point"], _m["PickleType"]
    Base = _m["declarative_base"]()
    b_t = Table("b_t", Base.metadata, Column("b_id", ForeignKey("b.id"), primary_key=True), Column("t_id", ForeignKey("t.id"), primary_key=True))
    nf = Table("nf", Base.metadata, Column("src", ForeignKey("node.id"), primary_key=True), Column("dst", ForeignKey("node.id"), primary_key=True))
    nl = Table("nl", Base.metadata, Column("node_id", ForeignKey("node.id"), primary_key=True), Column("t_id", ForeignKey("t.id"), primary_key=True))

    class A(Base):
        __tablename__ = "a"
        id = Column(Integer, primary_key=True)
        name = Column(String)
        kind = Column(String)
        data = Column(MutableDict.as_mutable(JSON))
        items = Column(MutableList.as_mutable(_m["PickleType"]))
        # many-to-one to a natural primary key, declared on the inheritance base, kept in step by the ORM (no ON UPDATE CASCADE);
        # the constraint is deferred so that the parent key can be rewritten before the referring rows within one transaction
        k_name = Column(ForeignKey("k.name", deferrable=True, initially="DEFERRED"))
        k = relationship("K", passive_updates=False)
        bs = relationship("B", back_populates="a", cascade=cfg["bs"])
        p = relationship("P", uselist=False, back_populates="a")
        __mapper_args__ = {"polymorphic_on": kind, "polymorphic_identity": "a"}

    class A2(A):
        __tablename__ = "a2"
        id = Column(ForeignKey("a.id"), primary_key=True)
        extra = Column(String)
        __mapper_args__ = {"polymorphic_identity": "a2"}

    class B(Base):
        __tablename__ = "b"
        id = Column(Integer, primary_key=True)
        a_id = Column(ForeignKey("a.id"), nullable=cfg["fk_nullable"])
        val = Column(Integer)
        a = relationship("A", back_populates="bs")
        tags = relationship("T", secondary=b_t, back_populates="bs")

    class T(Base):
        __tablename__ = "t"
        id = Column(Integer, primary_key=True)
        name = Column(String)
        bs = relationship("B", secondary=b_t, back_populates="tags")

    class Node(Base):
        __tablename__ = "node"
        id = Column(Integer, primary_key=True)
        parent_id = Column(ForeignKey("node.id"))
        name = Column(String)
        children = relationship("Node", backref=backref("parent", remote_side=[id]))
        follows = relationship("Node", secondary=nf, primaryjoin=id == nf.c.src, secondaryjoin=id == nf.c.dst, backref="followed_by")
        labels = relationship("T", secondary=nl)          # many-to-many without a reverse side, on a class that can be in a cycle

    class K(Base):
        __tablename__ = "k"
        name = Column(String, primary_key=True)
        val = Column(Integer)
        memo = _m["deferred"](Column(String))

    class P(Base):
        __tablename__ = "p"
        id = Column(Integer, primary_key=True)
        a_id = Column(ForeignKey("a.id"), unique=True)
        note = Column(String)
        a = relationship("A", back_populates="p")

    class BL(Base):
        __tablename__ = "bl"
        id = Column(Integer, primary_key=True)
        note = Column(String)

    class D(Base):
        __tablename__ = "d"
        id = Column(Integer, primary_key=True)
        bl_id = Column(ForeignKey("bl.id"))
        note = Column(String)
        blob = relationship("BL", cascade="all")

    class H(Base):
        __tablename__ = "h"
        id = Column(Integer, primary_key=True)
        d_id = Column(ForeignKey("d.id"))
        note = Column(String)
        doc = relationship("D", cascade="all, delete-orphan", single_parent=True)

    class R(Base):
        __tablename__ = "r"
        id = Column(Integer, primary_key=True)
        q_id = Column(ForeignKey("q.id"))
        note = Column(String)

    class Q(Base):
        __tablename__ = "q"
        id = Column(Integer, primary_key=True)
        note = Column(String)
        rs = relationship("R", cascade="all, delete-orphan")       # unidirectional: no backref

    class O(Base):
        __tablename__ = "o"
        id = Column(Integer, primary_key=True)
        g_id = Column(ForeignKey("g.id"))
        key = Column(String)
        val = Column(Integer)
        g = relationship("G", back_populates="opts")

    class G(Base):
        __tablename__ = "g"
        id = Column(Integer, primary_key=True)
        note = Column(String)
        # dictionary collection keyed by an attribute of the member
        opts = relationship("O", back_populates="g", cascade="all, delete-orphan", collection_class=_m["attribute_keyed_dict"]("key"))

    class M(Base):
        """one attribute per Mutable* flavour (C49)"""
        __tablename__ = "m"
        id = Column(Integer, primary_key=True)
        d = Column(MutableDict.as_mutable(JSON))
        l = Column(MutableList.as_mutable(PickleType))
        s = Column(MutableSet.as_mutable(PickleType))
        x = Column(Integer)
        y = Column(Integer)
        pt = composite(Point, x, y)

    # picklable although defined in a function: registered under a module-level name
    M.__module__, M.__qualname__ = __name__, "M_" + name
    globals()["M_" + name] = M

    from sqlalchemy.orm import configure_mappers
    configure_mappers()
    classes = {"M": M, "A": A, "A2": A2, "B": B, "T": T, "Node": Node, "K": K, "P": P, "BL": BL, "D": D, "H": H, "Q": Q, "R": R, "G": G, "O": O}
    # relationship descriptors: (class, attr) -> kind, target, reverse attr, cascade, fk info
    rels = {
        ("A", "bs"): dict(kind="o2m", target="B", rev="a", fk=("b", "a_id")),
        ("A", "p"): dict(kind="o2o", target="P", rev="a", fk=("p", "a_id")),
        ("A", "k"): dict(kind="m2o", target="K", rev=None, fk=("a", "k_name")),
        ("B", "a"): dict(kind="m2o", target="A", rev="bs", fk=("b", "a_id")),
        ("B", "tags"): dict(kind="m2m", target="T", rev="bs", assoc=("b_t", "b_id", "t_id")),
        ("T", "bs"): dict(kind="m2m", target="B", rev="tags", assoc=("b_t", "t_id", "b_id")),
        ("Node", "children"): dict(kind="o2m", target="Node", rev="parent", fk=("node", "parent_id")),
        ("Node", "parent"): dict(kind="m2o", target="Node", rev="children", fk=("node", "parent_id")),
        ("Node", "follows"): dict(kind="m2m", target="Node", rev="followed_by", assoc=("nf", "src", "dst")),
        ("Node", "followed_by"): dict(kind="m2m", target="Node", rev="follows", assoc=("nf", "dst", "src")),
        ("Node", "labels"): dict(kind="m2m", target="T", rev=None, assoc=("nl", "node_id", "t_id")),
        ("P", "a"): dict(kind="m2o", target="A", rev="p", fk=("p", "a_id")),
        ("D", "blob"): dict(kind="m2o", target="BL", rev=None, fk=("d", "bl_id")),
        ("H", "doc"): dict(kind="m2o", target="D", rev=None, fk=("h", "d_id")),
        ("Q", "rs"): dict(kind="o2m", target="R", rev=None, fk=("r", "q_id")),
        ("G", "opts"): dict(kind="o2m", target="O", rev="g", fk=("o", "g_id")),
        ("O", "g"): dict(kind="m2o", target="G", rev="opts", fk=("o", "g_id")),
    }
    for (cn, an), r in rels.items():
        prop = classes[cn].__mapper__.relationships[an]
        r["cascade"] = prop.cascade
    for cn in ("A2",):
        for (c0, an), r in list(rels.items()):
            if c0 == "A":
                rels[(cn, an)] = r
    scal = {"A": ["name"], "A2": ["name", "extra"], "B": ["val"], "T": ["name"], "Node": ["name"], "K": ["val", "memo"], "P": ["note"],
            "BL": ["note"], "D": ["note"], "H": ["note"], "Q": ["note"], "R": ["note"], "G": ["note"], "O": ["val"], "M": []}
    tables = {"a": ["id", "name", "kind", "data", "items", "k_name"], "a2": ["id", "extra"], "b": ["id", "a_id", "val"], "t": ["id", "name"],
              "b_t": ["b_id", "t_id"], "node": ["id", "parent_id", "name"], "nf": ["src", "dst"], "nl": ["node_id", "t_id"], "k": ["name", "val", "memo"],
              "p": ["id", "a_id", "note"], "bl": ["id", "note"], "d": ["id", "bl_id", "note"], "h": ["id", "d_id", "note"],
              "q": ["id", "note"], "r": ["id", "q_id", "note"], "g": ["id", "note"], "o": ["id", "g_id", "val", "key"],
              "m": ["id", "d", "l", "s", "x", "y"]}
    return dict(name=name, cfg=cfg, Base=Base, classes=classes, rels=rels, scal=scal, tables=tables)


def rel_of(U, obj, attr):
    return U["rels"].get((type(obj).__name__, attr))


def rel_attrs(U, obj):
    cn = type(obj).__name__
    return [an for (c, an) in U["rels"] if c == cn]


def members(v):
    """the member objects of a loaded relationship value: list / dict collection, scalar reference or None"""
    if v is None:
        return []
    if isinstance(v, dict):
        return list(v.values())
    if isinstance(v, (list, set, tuple)):
        return list(v)
    return [v]


def state_of(obj):
    i = _m["inspect"](obj)
    if i.transient:
        return "transient"
    if i.pending:
        return "pending"
    if i.deleted:
        return "deleted"
    if i.persistent:
        return "persistent"
    if i.detached:
        return "detached"
    return "?"


def loaded(obj, attr):
    """loaded value of an attribute without triggering a load; (False, None) when unloaded/expired"""
    d = _m["inspect"](obj).dict
    if attr in d:
        return True, d[attr]
    return False, None


def pk_of(obj):
    ident = _m["inspect"](obj).identity
    if ident is not None:
        return ident[0]            # survives expiry
    if type(obj).__name__ == "K":
        return loaded(obj, "name")[1]
    return loaded(obj, "id")[1]


EDGES = {
    "transient_to_pending": ("transient", "pending"),
    "pending_to_transient": ("pending", "transient"),
    "pending_to_persistent": ("pending", "persistent"),
    "persistent_to_transient": ("persistent", "transient"),
    "persistent_to_deleted": ("persistent", "deleted"),
    "deleted_to_persistent": ("deleted", "persistent"),
    "deleted_to_detached": ("deleted", "detached"),
    "persistent_to_detached": ("persistent", "detached"),
    "detached_to_persistent": ("detached", "persistent"),
    "loaded_as_persistent": ("unloaded", "persistent"),
}


def freeze_gc():
    gc.disable()
    gc.collect()
    gc.freeze()
