#!/venv/bin/python
"""Regenerate MANIFEST.json from the property modules present under props/ and the N/A table."""
import importlib
import json
import os
import sys

HERE = os.path.dirname(os.path.dirname(os.path.abspath(__file__)))
sys.path.insert(0, HERE)

NA = {
 "C01": "semantic equivalence of rendered SQL is a pure function of the expression tree and dialect; no schedule, clock, fault or history for a simulator to own",
 "C03": "statement immutability / compile determinism is a pure function of the generative call chain; no I/O, time or concurrency",
 "C04": "bind-parameter placement is a pure function of (statement, paramstyle)",
 "C05": "literal rendering vs binding is a pure function of (value, type, dialect)",
 "C06": "identifier quoting round-trip is a pure function of (name, dialect)",
 "C07": "IN/NOT IN truth table is a pure function of (operand, value list); the cache re-binding clause is exercised inside C02's simulation",
 "C08": "LIKE autoescape is a pure function of two strings",
 "C09": "type round-trip is a pure function of (value, type, nesting context)",
 "C11": "row lookup by column is a pure function of the SELECT shape",
 "C12": "insertmanyvalues ordering is a function of (rows, batch size, sentinel config); no fault or schedule in the statement",
 "C13": "default/onupdate firing is a pure function of (column defaults, supplied keys)",
 "C14": "DDL ordering is a pure function of the FK graph",
 "C15": "reflection round-trip is a pure function of the table definition (and needs PostgreSQL/MariaDB servers absent here)",
 "C18": "LIMIT/OFFSET slicing is a pure function of (query, limit, offset, dialect)",
 "C19": "topological sort correctness is a pure function of the graph",
 "C20": "URL round-trip is a pure function of the components",
 "C21": "name truncation/uniqueness is a pure function of (names, lengths)",
 "C22": "'compile never raises an internal error' is a pure function of (construct, dialect)",
 "C38": "instrumented collections vs list/set/dict is per-operation conformance of an in-memory data structure; no I/O, time or concurrency",
 "C40": "loader-strategy equivalence is a function of (query, options, data)",
 "C41": "ORM-vs-Core row equivalence is a function of (query, data)",
 "C42": "polymorphic loading is a function of (hierarchy, data, query)",
 "C43": "bulk UPDATE/DELETE synchronisation is decided by evaluator-vs-SQL agreement on (criteria, row values): an input-space question",
 "C50": "ordering_list / association proxy conformance is in-memory collection behaviour per operation sequence",
 "C51": "pickling round-trip is a pure function of the object",
 "C53": "horizontal sharding routing is a function of (chooser functions, data, query); single-threaded, no faults in the statement",
 "C54": "OrderedSet / IdentitySet / immutabledict / LRUCache conformance is sequential data-structure behaviour; the concurrent LRUCache use is exercised inside C02",
 "C55": "compiled vs pure-Python equivalence is an input-quantified differential, and Cython is absent so the extensions cannot be rebuilt from the working tree",
 "C56": "upsert semantics is a function of (existing rows, parameter sets, conflict clause)",
}
PLANNED = ["C02", "C10", "C16", "C17", "C23", "C24", "C25", "C26", "C27", "C28", "C29", "C30", "C31", "C32", "C33", "C34",
           "C35", "C36", "C37", "C39", "C44", "C45", "C46", "C47", "C48", "C49", "C52"]


def main():
    os.environ.setdefault("VERIF_MANIFEST", "1")
    checks = []
    engines = {}
    built = []
    for pid in PLANNED:
        path = os.path.join(HERE, "props", pid.lower() + ".py")
        if not os.path.exists(path):
            continue
        src = open(path).read()
        ns = {}
        # metadata only: evaluate the module-level constants without importing sqlalchemy
        mod = importlib.import_module("props." + pid.lower())
        if getattr(mod, "DISABLED", False):
            continue
        built.append(pid)
        checks.append({
            "property_id": pid,
            "quick_cmd": "./check %s --tier quick" % pid,
            "thorough_cmd": "./check %s --tier thorough" % pid,
            "evidence_file": "evidence/%s.json" % pid,
            "replay_cmd_template": "./check %s --replay {path}" % pid,
            "engine": getattr(mod, "ENGINE", "dbsim"),
            "level_claimed": {"category": mod.LEVEL, "text": mod.LEVEL_TEXT, "design_ref": "DESIGN.md §6 " + pid},
            "level_note": mod.LEVEL_NOTE,
            "technique": mod.TECHNIQUE,
        })
        engines.setdefault(getattr(mod, "ENGINE", "dbsim"), []).append(pid)
    na = [{"property_id": k, "reason": v} for k, v in sorted(NA.items())]
    for pid in PLANNED:
        if pid not in built:
            na.append({"property_id": pid, "reason": "not claimed: simulation designed (DESIGN.md §6) but the check is not built/validated yet"})
    ENG = {
        "dbsim": "ledger DBAPI + fault-injecting sqlite3 proxy, virtual clock, scheduled GC (simfw/ledger.py, simfw/sqlproxy.py)",
        "threadsim": "seeded scheduler over real parked threads with sim Lock/RLock/Condition and settrace pre-emption (simfw/threadsim.py)",
        "loopsim": "virtual-time asyncio event loop + deterministic async driver + cancellation injector (simfw/loopsim.py)",
        "ormsim": "ORM session/database state machine with shadow model and raw-connection probes (simfw/ormsim.py)",
        "cachesim": "shared compiled-cache histories against an uncached reference engine (simfw/cachesim.py)",
    }
    man = {
        "version": 1,
        "setup_cmd": "/venv/bin/python -m compileall -q simfw props check >/dev/null 2>&1; ./check selftest-determinism --tier quick",
        "hooks": {
            "guard": "SQLALCHEMY_VERIF_SIM",
            "enable": "no source hooks exist in /repo: every seam is reached by module-attribute patching, creator=/module=/async_creator= and sys.settrace; checks import /repo/lib directly (pure-Python _cy modules), so there is nothing to build",
            "baseline_off_cmd": "cd /repo && /venv/bin/python -m pytest -ra -q -p no:cacheprovider --timeout=900 --continue-on-collection-errors",
            "source_commits": [],
            "add_only": True,
        },
        "engines": [{"name": k, "path": "simfw/", "serves_properties": sorted(v), "kind_free_text": ENG.get(k, k)}
                    for k, v in sorted(engines.items())],
        "checks": checks,
        "not_applicable": na,
        "notes": "Deterministic simulation with fault injection; see DESIGN.md. Exit 2 = harness error (never a pass). "
                 "Genuine defects repaired in /repo by 'fix:' commits are listed in known_findings.jsonl as fixed entries.",
    }
    with open(os.path.join(HERE, "MANIFEST.json"), "w") as f:
        json.dump(man, f, indent=1)
    print("MANIFEST.json: %d checks, %d not_applicable" % (len(checks), len(na)))


if __name__ == "__main__":
    main()
