#!/bin/bash
# multiseed.sh <tier> <seed>... : sweep every check at each seed (default budgets), evidence to /dev/shm
tier=$1; shift
for seed in "$@"; do
  echo "=== seed $seed"
  ./tools/sweep.sh $seed $tier ""
done
