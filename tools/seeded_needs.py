#!/venv/bin/python
"""write the one-line 'what it needs in order to manifest' (needs_short) into seeded/*/meta.json; creates meta.json from confirm.json if missing"""
import json, os
NEEDS = {
 "C30-m2m-keyswitch-shared-assoc-row": "many-to-many with passive_updates=False whose parent has a natural primary key that is changed while two or more unchanged children are in the collection",
 "C31-m2m-per-state-childdelete-order": "many-to-many without reverse side on a mapper that is in a unit-of-work cycle; a member removed from the collection and deleted in the same flush; immediate FK checks",
 "C33-released-savepoint-drops-dirty": "two SAVEPOINT levels: persistent object changed and flushed in the inner one, inner released, outer rolled back with the root transaction alive, object not touched in between",
 "C36-expire-attrs-keeps-committed-state": "del obj.relationship_attr, then Session.expire(obj, [that attr]) before the next flush or history inspection",
 "C39-expunge-cascade-skips-deleted-state": "child deleted and flushed (transaction open) while still in the parent's loaded collection, expunge(parent) with expunge cascade, then rollback",
 "C37-pending-append-keeps-removal": "autoflush off; set/dict collection left unloaded (after commit); a member removed and re-added from the other side of the backref with no flush in between; first read of the collection",
 "C39-replaced-pending-orphan-no-expunge-cascade": "scalar delete-orphan reference (one-to-one / single_parent many-to-one) whose still-pending value owns further pending objects, replaced before any flush",
 "C45-merge-autoflush-only-when-new": "merge() into an autoflush session that holds an unflushed delete or primary-key change for the merged identity (or a cascaded member) and no pending new object at all",
 "C46-composite-partial-expire-kept": "composite() over two or more columns, value already loaded, expire(obj, [one of its columns]) then reading the composite before the column",
 "C47-postload-queries-skip-autoflush": "selectinload / immediateload query consumed as a stream (yield_per) with pending changes made between two batches",
 "C48-partial-expire-strong-ref-modified-discard": "pending change on a persistent object, then expire/refresh of *other* attributes, no further change, every reference dropped and gc before the flush (two cooperating edits)",
 "C49-set-listener-unlink-before-coerce": "assignment that the Mutable type rejects (coerce raises ValueError) caught by the application, then in-place mutation of the surviving old value",
 "C02-construct-params-cachekey-fallback": "cache hit on a Compiled first populated by a statement built with Executable.params(); a later equal-key statement run without any parameters",
 "C02-construct-params-skips-extracted": "cache hit across statements that differ only in an inline literal + execute-time parameter dict with extra (unused) keys",
 "C10-reduce-translated-indexes": "three or more stacked column projections on one CursorResult whose first projection reorders columns",
 "C10-reduce-view-relative-indexes": "three or more stacked projections (columns().columns().scalars(i)) whose first one reorders or drops columns",
 "C16-imv-compile-time-map": "multi-row INSERT..RETURNING (insertmanyvalues) with a schema-qualified scalar subquery in VALUES + compiled-cache hit under a different schema_translate_map",
 "C16-imv-stale-translate-map": "insertmanyvalues batch with a schema-qualified element in VALUES, executed with a map other than the one the cached Compiled was built under",
 "C17-closure-key-own-link-only": "lambda statement of >= 3 links whose first link closes over a structure-changing value (a table) while the later links' closures stay the same",
 "C17-lambda-key-drops-grandparents": "chain of >= 3 lambda links in which a non-adjacent ancestor of the last link is chosen conditionally",
 "C23-ctx-exit-forgets-outer": "savepoint context manager nested in a transaction context manager, inner block left by exception, outer transaction then ended explicitly inside the outer block, more work afterwards",
 "C23-outer-savepoint-rollback-no-sql": "two savepoint levels, the OUTER one rolled back / closed while the inner is still open, then outer commit",
 "C24-characteristics-reset-once": "two separate execution_options() calls on one checkout, the first naming only logging_token, the second the isolation level",
 "C24-skip-autocommit-rollback": "skip_autocommit_rollback=True and a connection whose options say AUTOCOMMIT while the driver is in a transaction (refused option change inside a transaction), closed with the transaction open",
 "C25-stale-finalizer-in-use-guard": "an old fairy's weakref callback fires (detach / failed checkout keeping it alive) after its record was checked out again by someone else",
 "C25-stale-finalizer": "garbage-collected old checkout whose weakref callback runs after the record was returned and handed out again",
 "C26-checkin-fairyref-late": "two threads: B checks out the record between A's queue put and A's late 'fairy_ref = None' inside checkin()",
 "C26-overflow-close-no-finally": "overflow connection returned to a full queue AND its close escaping the pool: BaseException from DBAPI close() or a raising 'close' event listener (ordinary close() errors are swallowed)",
 "C27-sticky-disconnect-flag": "disconnect, then a reconnect attempt that fails with a disconnect-classified error, later a normal reconnect, then an ordinary (non-disconnect) error",
 "C27-sticky-is-disconnect": "disconnect + failed transparent reconnect classified as disconnect; the next ordinary error on the revived Connection is treated as a disconnect",
 "C28-remove-keeps-propagate": "listen(propagate=True) -> remove -> listen (no propagate) of the same function on an instance target, then dispatch on a target derived by _update",
 "C29-do-get-except-exception": "cancellation / timeout landing exactly while the pool is creating a NEW connection (connect await)",
 "C29-overflow-close-no-finally-cancel": "more connections in use than pool_size (overflow), the overflow connection returned to a full queue through an unshielded await, cancellation landing on the driver-level close",
 "C30-keyswitch-subclass-skipped": "natural primary key change + many-to-one declared on an inheritance base with passive_updates=False (no reverse side) + the referring object is a subclass instance",
 "C30-m2m-selfref-delete-skipped": "self-referential many-to-many with backref, two objects linked in both directions, both deleted in one flush",
 "C31-preprocess-flag-first-round": "one flush in which a state enters only in a later preprocess round (delete-orphan / cascade found during flush) and has a related object, while an earlier state of the same mapper showed no change",
 "C32-expire-keeps-pending-mutations": "unloaded collection changed only through the backref side, flush fails (any statement), rollback, then the collection is read / the session committed again",
 "C32-register-deleted-after-loop": "a persistent_to_deleted hook raising inside the flush that deletes the object, then Session.rollback()",
 "C33-deleted-dropped-from-dirty": "object modified and then deleted inside one SAVEPOINT scope, savepoint rolled back",
 "C34-key-restore-before-discard": "primary key changed and flushed inside a (nested) transaction, then rolled back, then lookups by the old key",
 "C35-rollback-error-skips-restore": "Session.rollback() itself reporting an error (driver ROLLBACK fails or an after_rollback hook raises) while the transaction holds added / deleted objects",
 "C35-stale-expired-evicted-not-deleted": "expired persistent object whose row was deleted behind the ORM, then a new object with the same primary key added and flushed",
 "C36-dict-pop-late-snapshot": "dict-based relationship collection whose FIRST change since load is pop(existing_key)",
 "C37-del-collection-live-iter": "list collection with >= 2 members deleted as a whole (del obj.collection)",
 "C39-presort-deletes-no-orphan": "unidirectional delete-orphan one-to-many: child removed from the collection and the parent deleted in the same flush",
 "C44-versioned-executemany": "several versioned rows updated in one flush while another session has bumped one of the versions",
 "C45-merge-autoflush-not-restored": "a merge() that raises (refused / stale), then add + merge of the same identity on the same Session",
 "C45-merge-skips-pk-attrs": "merge of a detached object whose key attribute was re-assigned, or onto an instance with an unflushed key change",
 "C46-deferred-populator-skipped": "loaded deferred column + external UPDATE + populate_existing re-read of a statement shape first executed without populate_existing",
 "C46-populate-existing-keeps-stale": "joined-inheritance subclass instance with its sub-table column loaded, external UPDATE, populate_existing query against the base class",
 "C47-bulk-failure-leaves-flushing": "a legacy bulk operation failing in the database, rollback, continued use of the same Session",
 "C47-no-autoflush-not-reentrant": "nested no_autoflush blocks on one Session (application block around merge(), which uses one internally)",
 "C48-expire-attrs-drops-strong-ref": "modified object, attribute-level expire / refresh of another attribute, no further change, references dropped + GC before the flush",
 "C48-partial-expire-drops-strong-ref": "modified object, Session.expire(obj, [other attr]), references dropped + GC before the flush",
 "C49-refresh-listener-none-attrs": "full reload of an object already in the identity map (refresh() without names / populate_existing), then an in-place mutation",
 "C49-set-unlinks-before-coerce": "assignment of a value the Mutable type rejects (ValueError caught by the application), then an in-place mutation of the old value",
 "C52-registry-plain-store": "scoped_session with scopefunc: two threads of one scope racing on first creation",
 "C28-update-subclass-stops-at-first-base": "a class with two event-target bases that the event system first sees after listen() on the second base",
 "C31-m2m-childdelete-order-merged": "many-to-many without backref whose parent is in a dependency cycle in that flush; a member removed from the collection and deleted in the same flush; immediate FK checks",
 "C33-rollback-skips-prepared-state": "flush succeeds, the database refuses the COMMIT, then Session.rollback() / context-manager exit",
 "C34-deleted-snapshot-after-event": "a persistent_to_deleted hook raising during the flush of a DELETE, then rollback, then get() / query of that identity",
 "C36-history-original-passed-skips-identity-check": "one-to-one (deferred history) side: net-zero assignments (value taken away and put back; the row's own child assigned to the unloaded attribute)",
 "C37-setitem-same-member-no-append": "index / extended-slice assignment of a list-collection member onto its own position (lst[i] = lst[i], swaps with i == j)",
 "C39-cascade-visited-before-filters": "a pending child reachable from one parent through two relationships with refresh-expire cascade, the non-delete-orphan one declared first; then expire / refresh of the parent",
 "C44-server-version-not-refetched": "server-side version counter on a table without RETURNING, expire_on_commit=False, A updates+commits, B updates+commits, A writes again",
 "C25-finalizer-guard-fairy-ref-none": "checkout detached without close(), the slot handed to another holder, then the detached proxy garbage collected while that holder is still checked out",
 "C26-pool-invalidate-skips-invalidated-rec": "pool-wide invalidation raised from the checkout path (failing pre-ping classified as disconnect, or InvalidatePoolError from a checkout handler) while older healthy connections are idle",
 "C27-disconnect-flag-kept-when-invalidated": "disconnect, a reconnect attempt failing with a disconnect-classified error while the Connection is already invalidated, a later successful reconnect, then an ordinary error",
 "C23-nested-exit-clears-context-manager": "savepoint block inside a transaction block, the ROOT transaction ended from inside the savepoint block, the savepoint block left, the connection used again inside the outer block",
 "C24-rollback-impl-skips-on-autocommit-option": "skip_autocommit_rollback=True, the recorded option says AUTOCOMMIT while the driver connection is transactional (reconnect after invalidation, or refused option change), closed with uncommitted writes",
 "C16-imv-map-from-compiled": "insertmanyvalues batch with a schema-qualified scalar subquery in VALUES + compiled-cache hit under a map that translates that schema differently",
 "C10-filter-yield-per-not-generative": "on one scalars()/mappings() view: a sized fetchmany / partitions first, then view.yield_per(n), then a size-less fetchmany() / partitions()",
 "C17-tracker-key-parent-only": "lambda_stmt chain of >= 3 links in which two invocations differ at a link two or more levels above the last one (alternative first lambda, optional middle link)",
 "C28-update-subclass-direct-bases-only": "listener on a base class, then Mid(Base) and Leaf(Mid) defined afterwards and Leaf used before Mid was ever seen by the event system",
 "C29-overflow-close-no-finally-cancel-2": "overflow connection returned to a full queue through an unshielded await, cancellation landing on the driver-level close (same mechanism as the round-2 change, found independently)",
 "C44-versioned-update-executemany-batch": "client-side versioning, one flush updating >= 2 rows of the mapper with the same changed columns and different version counters; a later write of rows 2..n",
 "C52-default-registry-by-ident-2": "default thread scope, a thread ends without remove(), a later thread gets the recycled identifier (same mechanism as the round-2 change, found independently)",
 "C02-many-paramsets-drop-stmt-params": "compiled cache in use + execution with a LIST of two or more parameter sets + DML embedding a SELECT / scalar subquery / text that had Executable.params() applied",
 "C30-m2m-process-deletes-shared-set": "self-referential bidirectional many-to-many, two nodes linked in both directions, both deleted in one flush (same mechanism as a round-1 change, found independently)",
 "C31-preprocess-decided-on-first-pass": "one flush in which a relationship's first presort pass sees states without changes and a later pass (delete-orphan found during flush, unidirectional collection) has children whose FK must be nulled",
 "C32-provisioning-state-stuck": "the flush is the first database access of its transaction / savepoint and obtaining the connection fails (connect error, BEGIN / SAVEPOINT failing, after_begin hook raising)",
 "C33-begin-nested-autoflush-only": "autoflush=False (or a no_autoflush block), unflushed work pending when begin_nested() is called, savepoint rolled back",
 "C34-passive-cascade-key-not-switched": "passive_updates with a real ON UPDATE CASCADE, child whose FK column is part of its own primary key loaded in the session while the parent key changes, then looked up again",
 "C35-make-transient-keeps-deleted-flag": "delete + flush, object becomes detached (commit / expunge / close), make_transient + add + flush",
 "C36-partial-expire-keeps-deleted-history": "del obj.relationship_attr, then Session.expire(obj, [that attr]), then read or flush",
 "C52-default-registry-by-ident": "default (thread-local) scoped_session; a thread ends without remove(); a later thread gets the recycled thread identifier",
}
base = "/verif/seeded"
for name in sorted(os.listdir(base)):
    d = os.path.join(base, name)
    mp = os.path.join(d, "meta.json")
    m = json.load(open(mp)) if os.path.exists(mp) else {}
    cp = os.path.join(d, "confirm.json")
    if os.path.exists(cp):
        conf = json.load(open(cp))
        m.setdefault("property", conf["property"])
        m.setdefault("confirmation", conf)
    if name in NEEDS:
        m["needs_short"] = NEEDS[name]
    elif "needs_short" not in m:
        print("no needs text for", name)
    m.setdefault("checks", {})
    m.setdefault("detected_by", [])
    m.setdefault("missed_by", [])
    json.dump(m, open(mp, "w"), indent=1)
