#!/bin/bash
# usage: confirm_batch.sh "ID:name:tests" ...
for spec in "$@"; do
  IFS=: read id name tests <<< "$spec"
  prop=${id%b}; prop=${prop%c}
  echo "== $id -> $name"
  /verif/tools/confirm_seeded.sh $prop $name /tmp/wt/out-$id $tests
done
