#!/venv/bin/python
"""refresh the generated tables of DESIGN.md: seeded-change matrix (from seeded/*/meta.json) and measured cost table (from evidence/*.json)"""
import json, os, subprocess, glob
p = "/verif/DESIGN.md"
s = open(p).read()
tab = subprocess.run(["/venv/bin/python", "/verif/tools/seeded_table.py"], capture_output=True, text=True).stdout
a, b = "<!-- SEEDED-TABLE-BEGIN -->", "<!-- SEEDED-TABLE-END -->"
s = s[: s.index(a) + len(a)] + "\n" + tab + s[s.index(b):]
rows = ["| check | level | quick tier: evaluations (base histories) | wall s | evaluations/h | faults fired (kinds) | distinct non-trivial |", "|---|---|---|---|---|---|---|"]
for f in sorted(glob.glob("/verif/evidence/C*.json")):
    e = json.load(open(f))
    c = e["coverage"]
    ff = c.get("faults_fired", {})
    rows.append("| %s | %s | %d (%d) | %.0f | %d | %d (%d) | %d |" % (e["property_id"], e["level"], c["evaluations"], c.get("base_histories", 0), e["wall_s"],
                                                                   c.get("runs_per_hour", 0), sum(ff.values()), len(ff), c["distinct_nontrivial"]))
a, b = "<!-- COST-TABLE-BEGIN -->", "<!-- COST-TABLE-END -->"
if a in s:
    s = s[: s.index(a) + len(a)] + "\n" + "\n".join(rows) + "\n" + s[s.index(b):]
open(p, "w").write(s)
print("DESIGN.md tables refreshed")
