#!/bin/bash
# confirm_seeded.sh <PROP> <name> <outdir-with-patch.diff+demo.py> <test paths...>
# Confirms a sub-agent's seeded change in a fresh scratch worktree of /repo HEAD and stores it under /verif/seeded/<name>/.
set -u
prop=$1; name=$2; out=$3; shift 3
wt=/tmp/wt/confirm-$name
rm -rf "$wt"; git -C /repo worktree prune
git -C /repo worktree add -q --detach "$wt" HEAD || exit 3
res=/verif/seeded/$name; mkdir -p "$res"
cd "$wt"
/venv/bin/python "$out/demo.py" "$wt/lib" > "$res/demo_without.log" 2>&1; d0=$?
git apply "$out/patch.diff" || { echo "PATCH DOES NOT APPLY"; git -C /repo worktree remove --force "$wt"; exit 3; }
/venv/bin/python "$out/demo.py" "$wt/lib" > "$res/demo_with.log" 2>&1; d1=$?
/venv/bin/python -m pytest -q -p no:cacheprovider -n 8 --timeout=900 "$@" > "$res/tests_with.log" 2>&1; t=$?
summary=$(tail -1 "$res/tests_with.log")
cp "$out/patch.diff" "$out/demo.py" "$res/"; [ -f "$out/notes.md" ] && cp "$out/notes.md" "$res/agent_notes.md"
tail -3 "$res/tests_with.log" > "$res/tests_with.tail"; rm -f "$res/tests_with.log"
cd /; git -C /repo worktree remove --force "$wt"
echo "demo_without=$d0 demo_with=$d1 tests_exit=$t :: $summary"
cat > "$res/confirm.json" <<J
{"property": "$prop", "demo_exit_without_change": $d0, "demo_exit_with_change": $d1, "tests_run": "$*", "tests_exit": $t,
 "tests_summary": "$(echo $summary | tr -d '"')", "repo_head": "$(git -C /repo rev-parse --short HEAD)"}
J
