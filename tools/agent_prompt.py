import json, sys
pid, tag = sys.argv[1], sys.argv[2]
for line in open('/verif/properties.jsonl'):
    p = json.loads(line)
    if p['id'] == pid: break
wt = "/tmp/wt/%s%s" % (pid, tag); out = "/tmp/wt/out-%s%s" % (pid, tag)
print(f"""You are helping test a verification effort for SQLAlchemy (version 2.1 beta, pure-Python; Python interpreter: /venv/bin/python).
Your job: write ONE realistic code change ("seeded bug") to the SQLAlchemy library that BREAKS the semantic property below, while the library still imports/compiles and the EXISTING test suite still passes. Then write a demonstration program that fails with your change and passes without it.

PROPERTY {p['id']}: {p['title']}
{p['statement']}
(Quantified over: {p['quantifier']['text']})
Relevant code (anchors): {', '.join(p['anchors']['files'])}; mechanisms: {'; '.join(m['name'] + ' in ' + m['where'] for m in p['anchors']['mechanism'])}

WORKSPACE RULES (strict):
- Work ONLY inside your own scratch git worktree: {wt} (a checkout of the library; source is under {wt}/lib/sqlalchemy, tests under {wt}/test). Write your outputs to {out}/ .
- NEVER touch or read /repo or /verif. NEVER run `git stash`, `git checkout` of other branches, or `git worktree` commands (the git object store is shared). To undo your edits use `git -C {wt} checkout -- lib` only.
- Run python with the worktree's library first on the path, e.g. `cd {wt} && PYTHONPATH={wt}/lib /venv/bin/python prog.py` and verify `import sqlalchemy; sqlalchemy.__file__` points into {wt}. Tests: `cd {wt} && /venv/bin/python -m pytest -q -p no:cacheprovider -n 4 --timeout=900 <paths>` (only SQLite is available; no network).

WHAT KIND OF CHANGE:
- It must look like something a refactor or an 'optimisation' could plausibly introduce: small (1-15 lines), in library code (not tests), no syntax tricks, no special-casing of magic values, no random/time-dependent behaviour.
- It must need something SPECIFIC to manifest: a particular multi-step sequence of operations, a fault/exception at a particular point, a particular interleaving or garbage-collection/cancellation instant, an unusual-but-legal input or configuration, or two cooperating sites that each look fine alone. It must NOT be exposed at once by ordinary use (that is why the existing tests keep passing).
- Choose a DIFFERENT mechanism from the obvious one; be creative about which code path you break (look at less-travelled branches of the anchored files and their callers/callees).
- The existing tests that cover the area must still pass WITH your change. At minimum run the test directories/files that exercise the files you touched (e.g. test/orm, test/engine, test/base, test/sql, test/ext as relevant) and report the pass/fail counts with and without your change (they must be identical, with zero new failures).

DELIVERABLES in {out}/ :
1. patch.diff — `git -C {wt} diff > {out}/patch.diff` (must apply with `git apply` to a clean checkout of the same commit).
2. demo.py — standalone program taking the library path as optional argv[1] (it must do `sys.path.insert(0, sys.argv[1])` BEFORE importing sqlalchemy, default {wt}/lib). Exit code 0 and prints OK when the property holds (unmodified library); exit code 1 with an explanation when your change is applied. It must be deterministic. It must judge the PROPERTY (observable behaviour: database rows, object states, events, pool accounting...), not implementation details.
3. notes.md — what you changed, why it breaks the property, exactly what is needed for it to manifest, which tests you ran with counts (with/without), and the demo output with/without.
Verify everything yourself before finishing: demo exit 0 on clean checkout, exit 1 with patch, tests same counts. Leave the worktree with your patch applied. Your final message should be a 5-line summary (what, where, trigger, tests run, demo result).""")
