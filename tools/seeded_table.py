#!/venv/bin/python
"""print the markdown table 'independently seeded change -> which checks catch it' from seeded/*/meta.json (for DESIGN.md §9.1)"""
import json, os, re
base = "/verif/seeded"
print("| seeded change | property | what it needs | caught by (quick tier) | missed by |")
print("|---|---|---|---|---|")
for name in sorted(os.listdir(base)):
    mp = os.path.join(base, name, "meta.json")
    if not os.path.exists(mp):
        print("| %s | ? | (no meta.json) | | |" % name)
        continue
    m = json.load(open(mp))
    needs = m.get("needs_short") or ""
    if not needs:
        notes = os.path.join(base, name, "agent_notes.md")
        if os.path.exists(notes):
            txt = open(notes).read()
            mm = re.search(r"(?is)(needed to manifest|what is needed to manifest|trigger|needs)[^\n:]*:?\**\s*(.{20,260}?)(\n\n|\n- |\n\d\.|\n\*\*|$)", txt)
            if mm:
                needs = " ".join(mm.group(2).split())[:200]
    print("| %s | %s | %s | %s | %s |" % (name, m.get("property", "?"), needs.replace("|", "/"), ", ".join(m.get("detected_by", [])) or "—",
                                          ", ".join(m.get("missed_by", [])) or "—"))
