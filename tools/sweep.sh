#!/bin/bash
# sweep.sh <seed> <tier> [secs] [ids...] : run checks one after the other with evidence redirected to /dev/shm (exploration, not evidence)
seed=$1; tier=$2; secs=${3:-}; shift 3 2>/dev/null
ids=${@:-$(cd /verif && ./check list)}
for id in $ids; do
  if [ -n "$secs" ]; then extra="--secs $secs"; else extra=""; fi
  VERIF_EVIDENCE_DIR=/dev/shm/sweep-ev VERIF_SEED=$seed ./check $id --tier $tier $extra 2>&1 | grep -E "^(VIOLATION|KNOWN|C[0-9]+ tier|HARNESS|NONDET)" | cut -c1-400
done
