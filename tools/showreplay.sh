#!/bin/bash
# showreplay.sh <ID> : print case + per-op outcomes for each replay file of a property
for f in /verif/replays/$1-*.json; do /venv/bin/python -c "
import json
d=json.load(open('$f'))
c=d['case']; print({k:v for k,v in c.items() if k not in ('prog','seed','idx','_minimised','switches')}); print('prog', c.get('prog')); print(d['violation']['sig'][:200], d['violation'].get('detail'))"; VERIF_VERBOSE=1 /verif/check $1 --replay $f 2>&1 | /venv/bin/python -c "
import sys,json
t=sys.stdin.read(); i=t.index('[\n'); 
try:
    tr=json.JSONDecoder().raw_decode(t[i:])[0]; print('outcomes', [ (x[1],x[-1]) for x in tr])
except Exception as e: print('noparse', e)
"; echo; done
