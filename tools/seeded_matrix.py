#!/venv/bin/python
"""seeded_matrix.py <seeded-name> <CHECK-ID> [<CHECK-ID>...] : run each check's quick tier against a scratch copy of /repo/lib with
seeded/<name>/patch.diff applied (tools/mutrun.sh; /repo itself is never touched) and record the outcome in seeded/<name>/meta.json
(detected_by / missed_by)."""
import json, os, subprocess, sys, time
name, checks = sys.argv[1], sys.argv[2:]
d = os.path.join("/verif/seeded", name)
meta_p = os.path.join(d, "meta.json")
meta = json.load(open(meta_p)) if os.path.exists(meta_p) else {}
conf = json.load(open(os.path.join(d, "confirm.json")))
meta.setdefault("property", conf["property"])
meta["confirmation"] = conf
meta.setdefault("checks", {})
notes = os.path.join(d, "agent_notes.md")
if os.path.exists(notes) and "needs" not in meta:
    meta["needs"] = "see agent_notes.md (what the change needs in order to manifest)"
head = subprocess.run(["git", "-C", "/repo", "rev-parse", "--short", "HEAD"], capture_output=True, text=True).stdout.strip()
for c in checks:
    t0 = time.time()
    p = subprocess.run(["/verif/tools/mutrun.sh", os.path.join(d, "patch.diff"), c, "--tier", "quick"] + os.environ.get("MATRIX_ARGS", "").split(),
                       capture_output=True, text=True, cwd="/verif")
    lines = [l for l in p.stdout.splitlines() if l.startswith("VIOLATION")]
    rc = [l for l in p.stdout.splitlines() if l.startswith("exit=")]
    rc = int(rc[-1][5:]) if rc else p.returncode
    meta["checks"][c] = {"exit": rc, "detected": rc == 1 and bool(lines), "wall_s": round(time.time() - t0, 1),
                         "first_violation": lines[0][:300] if lines else None, "repo_head": head,
                         "ran": "tools/mutrun.sh seeded/%s/patch.diff %s --tier quick" % (name, c)}
    print(name, c, "exit", rc, lines[0][:160] if lines else (p.stdout.strip().splitlines() or ["?"])[-2][:160])
meta["detected_by"] = sorted(c for c, r in meta["checks"].items() if r["detected"])
meta["missed_by"] = sorted(c for c, r in meta["checks"].items() if not r["detected"])
json.dump(meta, open(meta_p, "w"), indent=1)
