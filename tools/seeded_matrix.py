#!/venv/bin/python
"""seeded_matrix.py <seeded-name> <CHECK-ID> [<CHECK-ID>...] : apply seeded/<name>/patch.diff to /repo, run each check's quick
tier, always revert, and record the outcome in seeded/<name>/meta.json (detected_by / missed_by)."""
import json, os, subprocess, sys, time
name, checks = sys.argv[1], sys.argv[2:]
d = os.path.join("/verif/seeded", name)
meta_p = os.path.join(d, "meta.json")
meta = json.load(open(meta_p)) if os.path.exists(meta_p) else {}
conf = json.load(open(os.path.join(d, "confirm.json")))
meta.setdefault("property", conf["property"])
meta["confirmation"] = conf
meta.setdefault("checks", {})
assert subprocess.run(["git", "-C", "/repo", "status", "--porcelain", "--untracked-files=no"], capture_output=True, text=True).stdout.strip() == "", "repo dirty"
subprocess.run(["git", "-C", "/repo", "apply", os.path.join(d, "patch.diff")], check=True)
try:
    for c in checks:
        t0 = time.time()
        p = subprocess.run(["/verif/check", c, "--tier", "quick"], capture_output=True, text=True, cwd="/verif")
        lines = [l for l in p.stdout.splitlines() if l.startswith("VIOLATION")]
        meta["checks"][c] = {"exit": p.returncode, "detected": p.returncode == 1 and bool(lines), "wall_s": round(time.time() - t0, 1),
                             "first_violation": lines[0][:300] if lines else None, "repo_head": conf.get("repo_head")}
        print(name, c, "exit", p.returncode, lines[0][:160] if lines else p.stdout.strip().splitlines()[-1][:160])
finally:
    subprocess.run(["git", "-C", "/repo", "checkout", "--", "."], check=True)
meta["detected_by"] = sorted(c for c, r in meta["checks"].items() if r["detected"])
meta["missed_by"] = sorted(c for c, r in meta["checks"].items() if not r["detected"])
json.dump(meta, open(meta_p, "w"), indent=1)
