#!/bin/bash
# runmut.sh <diff> <check args...> : apply a mutant to /repo, run ./check, always revert
set -u
d=$(realpath "$1"); shift
git -C /repo apply "$d" || { echo "APPLY FAILED $d"; exit 3; }
trap 'git -C /repo checkout -- . ' EXIT
VERIF_EVIDENCE_DIR=/dev/shm/verif-mutant-evidence /verif/check "$@"
echo "exit=$?"
