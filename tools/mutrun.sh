#!/bin/bash
# mutrun.sh <patch.diff> <check args...> : run ./check against a scratch copy of /repo/lib with the patch applied (never touches /repo);
# evidence goes to /dev/shm so the committed evidence of the real tree is not overwritten
set -u
d=$(realpath "$1"); shift
w=$(mktemp -d /dev/shm/mut.XXXXXX)
trap 'rm -rf "$w"' EXIT
mkdir -p "$w/lib"; cp -r /repo/lib/sqlalchemy "$w/lib/"; find "$w/lib" -name '*.so' -delete
patch -s -d "$w" -p1 < "$d" || { echo "APPLY FAILED $d"; exit 3; }
VERIF_REPO="$w" VERIF_EVIDENCE_DIR=/dev/shm/verif-mutant-evidence /verif/check "$@"
echo "exit=$?"
