#!/venv/bin/python
"""ormdebug.py <replay.json | inline-json-case> : run an ormsim case printing object states after every op"""
import sys, json
sys.path.insert(0, '/verif')
from simfw import boot; boot.boot()
from simfw import ormrun as OR, ormsim as OS
from props import _orm
_orm.setup()
arg = sys.argv[1]
case = json.load(open(arg))["case"] if arg.endswith(".json") else json.loads(arg)
case = dict(case); case["stop_on"] = ()
r = OR.Run(case)
orig = r.step
def step(i, op):
    orig(i, op)
    sts = ["%d:%s%s=%s%s" % (e["label"], e["cls"], OS.pk_of(e["obj"]), OS.state_of(e["obj"])[:4], "" if r.in_session(e["obj"]) else "(out)") for e in r.entries()]
    print(i, op, "->", r.trace[-1][4], "|", " ".join(sts))
    for v in r.viol[len(step.seen):]:
        print("     VIOL", v["oracle"], v["sig"][:200])
    step.seen = list(r.viol)
step.seen = []
r.step = step
r.case["stop_on"] = ("none",)
import warnings
warnings.simplefilter("ignore")
for i, op in enumerate(case["prog"]):
    step(i, op)
step(len(case["prog"]), ["commit", 0, 0])
r.cleanup()
