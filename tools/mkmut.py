#!/venv/bin/python
"""mkmut.py <name> <repo-relative-file> <<< 'OLD\n====\nNEW'   -> selftest/mutants/<name>.diff  (repo left clean)"""
import os, subprocess, sys
name, rel = sys.argv[1], sys.argv[2]
old, new = sys.stdin.read().split("\n====\n")
new = new.rstrip("\n") + "\n" if old.endswith("\n") else new.rstrip("\n")
p = os.path.join("/repo", rel)
s = open(p).read()
assert s.count(old) == 1, "old text occurs %d times" % s.count(old)
open(p, "w").write(s.replace(old, new))
d = subprocess.run(["git", "-C", "/repo", "diff", "--", rel], capture_output=True, text=True).stdout
subprocess.run(["git", "-C", "/repo", "checkout", "--", rel], check=True)
out = "/verif/selftest/mutants/%s.diff" % name
os.makedirs(os.path.dirname(out), exist_ok=True)
open(out, "w").write(d)
print(out, len(d.splitlines()), "lines")
