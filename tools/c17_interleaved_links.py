import sys, random
sys.path.insert(0, "/verif")
from simfw import boot; boot.boot()
from props import c17
from simfw import cachesim as CS
c17.setup()
m = c17._m
items, select, lambda_stmt = m["items"], m["select"], m["lambda_stmt"]
def links(n, b1, b2, b3, v1, v2):
    """generator: yields after each link is constructed; same code objects as c17.lam_chain? no - own lambdas, same shape"""
def chain_steps(lc, n, b1, b2, b3, v1, v2):
    stmt = lambda_stmt(lambda: select(items.c.id), lambda_cache=lc); yield None
    if b1: stmt += lambda s: s.where(items.c.id > v1)
    else: stmt += lambda s: s.where(items.c.qty > v1)
    yield None
    if b2: stmt += lambda s: s.where(items.c.qty < v2)
    else: stmt += lambda s: s.where(items.c.id < v2)
    yield None
    if n == 4:
        if b3: stmt += lambda s: s.where(items.c.owner != "carl")
        else: stmt += lambda s: s.where(items.c.owner != "bob")
        yield None
    stmt += lambda s: s.order_by(items.c.id)
    yield stmt
bad = 0; tot = 0
for seed in range(int(sys.argv[1])):
    rng = random.Random(seed)
    c17._reset_process_state()
    pair = CS.Pair(rng.choice([1, 3, 500])); lcs = rng.choice([1, 2]); lc = m["LRUCache"](lcs)
    cs, cr = pair.subject.connect(), pair.reference.connect()
    for rnd in range(4):
        n = rng.choice([3, 4])
        args = [(n, rng.randrange(2), rng.randrange(2), rng.randrange(2), rng.choice([0, 2, 4]), rng.choice([6, 9, 12])) for _ in range(rng.choice([2, 3]))]
        gens = [chain_steps(lc, *a) for a in args]
        live = list(range(len(gens)))
        while live:
            i = rng.choice(live)
            try:
                st = next(gens[i])
            except StopIteration:
                live.remove(i); continue
            if st is not None:
                tot += 1
                got = CS.norm_rows(cs.execute(st).all()); want = CS.norm_rows(cr.execute(c17.dir_chain(*args[i])).all())
                if got != want:
                    bad += 1
                    if bad <= 3: print("seed", seed, "lcache", lcs, args[i], got, want)
    cs.close(); cr.close(); pair.dispose()
print("single-threaded interleaved link construction: executions", tot, "wrong", bad)
