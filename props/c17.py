"""C17 — lambda statements never reuse stale closure values.

cachesim: a handful of lambda *code objects* (lambda_stmt chains with conditional links at different depths, where(lambda) criteria,
closure scalars, lists for in_(), structure-changing closure columns, closure SQL expressions, ORM with_loader_criteria(lambda))
is invoked again and again with changing closure values, through a per-run small lambda cache (so eviction happens) and the
engine's compiled cache; the reference is the equivalent statement built directly from the current values and executed on an
engine without cache.  SQL text, DBAPI parameters and rows are compared per invocation.
 kind=seq     — seeded invocation histories.
 kind=threads — threadsim: 2-3 threads invoke the same code objects with different closure values concurrently
                (pre-emption inside sql/lambdas.py; the analysis mutex is a sim lock).
"""
import gc
import random
import warnings

from simfw import cachesim as CS
from simfw import threadsim as TS
from simfw.core import digest_of

ID = "C17"
LEVEL = "exploration"
ENGINE = "cachesim"
TECHNIQUE = ("deterministic simulation: seeded invocation histories of fixed lambda code objects with changing closure values through small "
             "lambda and compiled caches vs directly built statements on an uncached engine; seeded thread schedules over concurrent "
             "invocations of the same code object")
LEVEL_TEXT = ("seeded search over invocation histories (closure scalars, IN lists, structure-changing columns, closure SQL expressions, 2-4 link "
              "lambda chains branching at every depth, where(lambda), ORM with_loader_criteria(lambda)) and over thread interleavings of "
              "concurrent invocations; SQL, parameters and rows compared with the direct statement.  Sampled.")
LEVEL_NOTE = ("only documented lambda usage is generated (no attribute access on closure objects, no None closure values); SQLite only; "
              "thread pre-emption at line granularity inside sql/lambdas.py, sql/cache_key.py, util/_collections.py")
TIERS = {
    "quick": {"runs": 3500, "secs": 30},
    "thorough": {"runs": 150000, "secs": 420, "hashseeds": [0, 1]},
}
SHRINK = ["hist", "switches"]
MIN_BUDGET = 120
RULE = ("history = list of (lambda family, closure values) + lambda-cache capacity + compiled-cache capacity; distinct = digest of history and "
        "outcomes; non-trivial = one code object was invoked with >=2 different closure values")
COMPONENTS_REAL = ["sqlalchemy.sql.lambdas (LambdaElement, StatementLambdaElement, AnalyzedCode/AnalyzedFunction, closure trackers)",
                   "cache keys / compiled cache", "ORM with_loader_criteria", "SQLite via stdlib sqlite3"]
COMPONENTS_STUB = ["reference: directly built statement on an engine without cache", "thread scheduler (kind=threads)"]
ASSUMPTIONS = ["pure-Python implementations of the _cy modules ran"]

TRACE = ("sql/lambdas.py", "sql/cache_key.py", "util/_collections.py")
_m = {}


def setup():
    m = CS.setup()
    import sqlalchemy.sql.lambdas as lambdas
    import sqlalchemy.util._collections as ucoll
    import sqlalchemy.util as sautil
    from sqlalchemy.util import LRUCache
    from sqlalchemy import column as sa_column
    _m.update(m)
    _m.update(lambdas=lambdas, ucoll=ucoll, sautil=sautil, LRUCache=LRUCache, sa_column=sa_column)
    # warm-up
    run_case({"kind": "seq", "lcache": 50, "cache": 50, "hist": [[f, [1, 2, 3, 1, 0]] for f in FAMS], "switches": None})
    CS.freeze_gc()


FAMS = ["scalar", "in_list", "column", "chain3", "chain4", "where_lambda", "expr_closure", "base_table", "same_code_twice", "orm_criteria"]
COLS = ["id", "qty"]
OWNERS = ["alice", "bob", "carl"]


# ---- the lambda code objects (defined once; every call re-uses the same code objects with new closure values) and their direct twins

def lam_scalar(lc, v, q):
    items, select, lambda_stmt = _m["items"], _m["select"], _m["lambda_stmt"]
    stmt = lambda_stmt(lambda: select(items.c.id, items.c.owner), lambda_cache=lc)
    stmt += lambda s: s.where(items.c.owner == v).where(items.c.qty >= q).order_by(items.c.id)
    return stmt


def dir_scalar(v, q):
    items, select = _m["items"], _m["select"]
    return select(items.c.id, items.c.owner).where(items.c.owner == v).where(items.c.qty >= q).order_by(items.c.id)


def lam_in(lc, ids):
    items, select, lambda_stmt = _m["items"], _m["select"], _m["lambda_stmt"]
    stmt = lambda_stmt(lambda: select(items.c.id), lambda_cache=lc)
    stmt += lambda s: s.where(items.c.id.in_(ids)).order_by(items.c.id)
    return stmt


def dir_in(ids):
    items, select = _m["items"], _m["select"]
    return select(items.c.id).where(items.c.id.in_(ids)).order_by(items.c.id)


def lam_column(lc, col, v):
    items, select, lambda_stmt = _m["items"], _m["select"], _m["lambda_stmt"]
    stmt = lambda_stmt(lambda: select(items.c.id), lambda_cache=lc)
    stmt += lambda s: s.where(col > v).order_by(col, items.c.id)
    return stmt


def dir_column(col, v):
    items, select = _m["items"], _m["select"]
    return select(items.c.id).where(col > v).order_by(col, items.c.id)


def lam_chain(lc, n, b1, b2, b3, v1, v2):
    """n-link chain branching at depth 1, 2 and (n==4) 3"""
    items, select, lambda_stmt = _m["items"], _m["select"], _m["lambda_stmt"]
    stmt = lambda_stmt(lambda: select(items.c.id), lambda_cache=lc)
    if b1:
        stmt += lambda s: s.where(items.c.id > v1)
    else:
        stmt += lambda s: s.where(items.c.qty > v1)
    if b2:
        stmt += lambda s: s.where(items.c.qty < v2)
    else:
        stmt += lambda s: s.where(items.c.id < v2)
    if n == 4:
        if b3:
            stmt += lambda s: s.where(items.c.owner != "carl")
        else:
            stmt += lambda s: s.where(items.c.owner != "bob")
    stmt += lambda s: s.order_by(items.c.id)
    return stmt


def dir_chain(n, b1, b2, b3, v1, v2):
    items, select = _m["items"], _m["select"]
    s = select(items.c.id)
    s = s.where(items.c.id > v1) if b1 else s.where(items.c.qty > v1)
    s = s.where(items.c.qty < v2) if b2 else s.where(items.c.id < v2)
    if n == 4:
        s = s.where(items.c.owner != "carl") if b3 else s.where(items.c.owner != "bob")
    return s.order_by(items.c.id)


def lam_base(lc, tbl, lo, n, links):
    """the *first* link closes over a table (changes the structure of everything after it); the later links only hold scalars"""
    select, lambda_stmt, column = _m["select"], _m["lambda_stmt"], _m["sa_column"]
    stmt = lambda_stmt(lambda: select(tbl.c.id), lambda_cache=lc)
    stmt += lambda s: s.where(column("id") > lo)
    if links >= 3:
        stmt += lambda s: s.order_by(column("id")).limit(n)
    if links >= 4:
        stmt += lambda s: s.offset(0)
    return stmt


def dir_base(tbl, lo, n, links):
    select, column = _m["select"], _m["sa_column"]
    s = select(tbl.c.id).where(column("id") > lo)
    if links >= 3:
        s = s.order_by(column("id")).limit(n)
    if links >= 4:
        s = s.offset(0)
    return s


def _gt(col, v):
    return lambda: col > v


def lam_twice(c1, v1, c2, v2):
    """one lambda code object used twice in one statement, each use with its own closure values"""
    items, select = _m["items"], _m["select"]
    return select(items.c.id).where(_gt(c1, v1)).where(_gt(c2, v2)).order_by(items.c.id)


def dir_twice(c1, v1, c2, v2):
    items, select = _m["items"], _m["select"]
    return select(items.c.id).where(c1 > v1).where(c2 > v2).order_by(items.c.id)


def lam_where(v, w):
    items, select = _m["items"], _m["select"]
    return select(items.c.id).where(lambda: items.c.qty > v).where(lambda: items.c.id != w).order_by(items.c.id)


def dir_where(v, w):
    items, select = _m["items"], _m["select"]
    return select(items.c.id).where(items.c.qty > v).where(items.c.id != w).order_by(items.c.id)


def lam_expr(lc, col, v):
    items, select, lambda_stmt = _m["items"], _m["select"], _m["lambda_stmt"]
    crit = col == v          # a SQL expression (with its own bound literal) held in the closure
    stmt = lambda_stmt(lambda: select(items.c.id, items.c.qty), lambda_cache=lc)
    stmt += lambda s: s.where(crit).order_by(items.c.id)
    return stmt


def dir_expr(col, v):
    items, select = _m["items"], _m["select"]
    return select(items.c.id, items.c.qty).where(col == v).order_by(items.c.id)


def lam_orm(pat, nm):
    User, Address, select = _m["User"], _m["Address"], _m["select"]
    return (select(User).where(User.name == nm).order_by(User.id)
            .options(_m["selectinload"](User.addresses), _m["with_loader_criteria"](Address, lambda cls: cls.email.like(pat))))


def dir_orm(pat, nm):
    User, Address, select = _m["User"], _m["Address"], _m["select"]
    return (select(User).where(User.name == nm).order_by(User.id)
            .options(_m["selectinload"](User.addresses), _m["with_loader_criteria"](Address, Address.email.like(pat))))


def make(fam, a, lc):
    """-> (lambda statement builder result, direct statement, kind)"""
    items = _m["items"]
    if fam == "scalar":
        v, q = OWNERS[a[0] % 3], [1, 5, 8][a[1] % 3]
        return lam_scalar(lc, v, q), dir_scalar(v, q), "core", "owner=%s q=%s" % (v, q)
    if fam == "in_list":
        ids = [1 + (a[0] + i * a[1]) % 7 for i in range(a[2] % 5)]
        return lam_in(lc, ids), dir_in(ids), "core", "ids=%s" % ids
    if fam == "column":
        col = items.c[COLS[a[0] % 2]]
        v = [1, 4, 7][a[1] % 3]
        return lam_column(lc, col, v), dir_column(col, v), "core", "col=%s v=%s" % (col.key, v)
    if fam in ("chain3", "chain4"):
        n = 3 if fam == "chain3" else 4
        b1, b2, b3 = a[0] % 2, a[1] % 2, a[2] % 2
        v1, v2 = [0, 2, 4][a[3] % 3], [6, 9, 12][a[4] % 3]
        return lam_chain(lc, n, b1, b2, b3, v1, v2), dir_chain(n, b1, b2, b3, v1, v2), "core", "n=%d b=%d%d%d v=%s,%s" % (n, b1, b2, b3, v1, v2)
    if fam == "base_table":
        tbl = [items, _m["User"].__table__, _m["Address"].__table__][a[0] % 3]
        lo, n, links = [0, 1, 3][a[1] % 3], [2, 5][a[2] % 2], 2 + a[3] % 3
        return lam_base(lc, tbl, lo, n, links), dir_base(tbl, lo, n, links), "core", "tbl=%s lo=%s n=%s links=%d" % (tbl.name, lo, n, links)
    if fam == "same_code_twice":
        # (both uses on the same column with a smaller second value is KF-C17-3: drawn in a quarter of the cases only)
        same = a[0] % 4 == 0
        c1 = items.c.qty
        c2 = items.c.qty if same else items.c.id
        v1, v2 = [5, 8, 9][a[1] % 3], [1, 2, 4][a[2] % 3]
        return lam_twice(c1, v1, c2, v2), dir_twice(c1, v1, c2, v2), "core", "cols=%s,%s v=%s,%s" % (c1.key, c2.key, v1, v2)
    if fam == "where_lambda":
        v, w = [1, 4, 7][a[0] % 3], 1 + a[1] % 7
        return lam_where(v, w), dir_where(v, w), "core", "v=%s w=%s" % (v, w)
    if fam == "expr_closure":
        col = items.c[COLS[a[0] % 2]]
        v = [2, 5, 8, 3][a[1] % 4]
        return lam_expr(lc, col, v), dir_expr(col, v), "core", "col=%s v=%s" % (col.key, v)
    if fam == "orm_criteria":
        pat = ["%@x", "%@y", "a%", "none"][a[0] % 4]
        nm = ["ann", "bob", "cat"][a[1] % 3]
        return lam_orm(pat, nm), dir_orm(pat, nm), "orm", "pat=%s nm=%s" % (pat, nm)
    raise ValueError(fam)


def gen_hist(rng, n, core_only=False):
    fams = [f for f in FAMS if not (core_only and f == "orm_criteria")]
    hist = []
    cur = rng.choice(fams)
    for _ in range(n):
        if rng.random() > 0.65:
            cur = rng.choice(fams)
        hist.append([cur, [rng.randrange(12) for _ in range(5)]])
    return hist


def gen_case(rng, tier):
    if rng.random() < 0.8:
        return {"kind": "seq", "lcache": rng.choice([1, 2, 4, 100]), "cache": rng.choice([1, 3, 500]), "hist": gen_hist(rng, rng.randint(8, 40)),
                "switches": None}
    nt = rng.randint(2, 3)
    fam = rng.choice([f for f in FAMS if f != "orm_criteria"])
    threads = []
    for _ in range(nt):
        threads.append([[fam if rng.random() < 0.8 else rng.choice(FAMS[:7]), [rng.randrange(12) for _ in range(5)]] for _ in range(rng.randint(1, 3))])
    case = {"kind": "threads", "lcache": rng.choice([1, 2, 100]), "cache": rng.choice([1, 3, 500]), "threads": threads, "hist": None,
            "switches": None, "model": "F" if rng.random() < 0.4 else "G"}
    if rng.random() < 0.5:
        case["sched"] = {"mode": "seed", "seed": rng.getrandbits(32), "policy": "pct", "depth": rng.choice([1, 2, 3]),
                         "horizon": rng.choice([300, 1500, 6000])}
    else:
        case["sched"] = {"mode": "seed", "seed": rng.getrandbits(32), "policy": "rw", "p": rng.choice([0.01, 0.05, 0.2])}
    return case


def explicit_of(case, res):
    if case["kind"] != "threads":
        return case
    c = dict(case)
    c["switches"] = res["switch_log"]
    return c


def _exec(conn, sess, stmt, kind):
    if kind == "orm":
        objs = sess.execute(stmt).unique().scalars().all()
        rows = [repr((o.id, o.name, [(x.id, x.email) for x in o.addresses])) for o in objs]
        sess.expunge_all()
        return rows
    return CS.norm_rows(conn.execute(stmt).all())


def _reset_process_state():
    """sql/lambdas.py keeps process-wide state: the per-code-object analysis (AnalyzedCode._fns) and the default lambda cache used by
    where(lambda) / with_loader_criteria(lambda).  Every run starts from the state of a fresh process, so that a run is a pure function
    of its case (replay in a fresh interpreter) and first-time analysis of each code object happens in every run."""
    L = _m["lambdas"]
    L.AnalyzedCode._fns.clear()
    L._closure_per_cache_key = _m["LRUCache"](1000)


def run_case(case):
    _reset_process_state()
    if case["kind"] == "threads":
        return run_threads(case)
    viol = []
    counters = {}
    trace = []

    def bump(k, n=1):
        counters[k] = counters.get(k, 0) + n

    def V(oracle, sig, **detail):
        if not viol:
            viol.append({"oracle": oracle, "sig": sig, "detail": detail})

    seen_vals = {}
    with warnings.catch_warnings():
        warnings.simplefilter("ignore")
        pair = CS.Pair(case["cache"])
        lc = _m["LRUCache"](case["lcache"])
        try:
            cs, cr = pair.subject.connect(), pair.reference.connect()
            ss, sr = _m["Session"](cs), _m["Session"](cr)
            for i, (fam, a) in enumerate(case["hist"]):
                lam, direct, kind, desc = make(fam, a, lc)
                seen_vals.setdefault(fam, set()).add(desc)
                n_s, n_r = len(pair.cap["s"]), len(pair.cap["r"])
                try:
                    got = ("rows", _exec(cs, ss, lam, kind))
                except Exception as e:      # noqa
                    got = ("raised", type(e).__name__ + ": " + str(e).split("\n")[0][:100])
                want = ("rows", _exec(cr, sr, direct, kind))
                c_s, c_r = pair.cap["s"][n_s:], pair.cap["r"][n_r:]
                trace.append([i, fam, desc, got[0]])
                if got != want:
                    V("stale_or_wrong_lambda_result", "lambda family %s [%s] (lambda cache %d, compiled cache %d): lambda statement gave %s, "
                      "direct statement %s" % (fam, desc, case["lcache"], case["cache"], repr(got)[:140], repr(want)[:140]), op=i)
                elif [c[0] for c in c_s] != [c[0] for c in c_r]:
                    V("wrong_lambda_sql", "lambda family %s [%s] (lambda cache %d, compiled cache %d): SQL %s, direct statement %s"
                      % (fam, desc, case["lcache"], case["cache"], [c[0][:110] for c in c_s], [c[0][:110] for c in c_r]), op=i)
                elif [c[1] for c in c_s] != [c[1] for c in c_r]:
                    V("stale_lambda_parameters", "lambda family %s [%s] (lambda cache %d, compiled cache %d): DBAPI parameters %s, direct "
                      "statement %s" % (fam, desc, case["lcache"], case["cache"], [c[1] for c in c_s][:3], [c[1] for c in c_r][:3]), op=i)
                if viol:
                    break
            ss.close()
            sr.close()
            cs.close()
            cr.close()
        finally:
            pair.dispose()
            gc.collect()
    for t in trace:
        bump("family:" + t[1])
    bump("invocations", len(trace))
    multi = any(len(v) >= 2 for v in seen_vals.values())
    return {"viol": viol, "digest": digest_of([case["lcache"], case["cache"], case["hist"], trace]), "nontrivial": multi, "counters": counters,
            "sets": {"families": sorted(seen_vals)}, "trace": trace[:40]}


def run_threads(case):
    viol = []
    counters = {}

    def bump(k, n=1):
        counters[k] = counters.get(k, 0) + n

    def V(oracle, sig, **detail):
        if not viol:
            viol.append({"oracle": oracle, "sig": sig, "detail": detail})

    sched = case["sched"]
    if case.get("switches") is not None:
        sched = {"mode": "explicit", "switches": case["switches"]}
    sim = TS.Sim(sched, TRACE, model=case["model"], max_steps=300000)
    patch = TS.Patch()
    patch.set(_m["ucoll"], "threading", TS.SHIM)
    patch.set(_m["lambdas"].AnalyzedCode, "_generation_mutex", TS.SimRLock())
    if case["model"] == "F":
        patch.set(_m["sautil"], "mini_gil", TS.SimRLock())
    results = {}
    with warnings.catch_warnings():
        warnings.simplefilter("ignore")
        pair = CS.Pair(case["cache"])
        lc = _m["LRUCache"](case["lcache"])
        try:
            conns = [pair.subject.connect() for _ in case["threads"]]

            def worker(ti, hist):
                def run():
                    for j, (fam, a) in enumerate(hist):
                        try:
                            lam, direct, kind, desc = make(fam, a, lc)
                            n0 = len(pair.cap["s"])
                            rows = CS.norm_rows(conns[ti].execute(lam).all())
                            results[(ti, j)] = ("rows", rows)
                        except TS.SimAbort:
                            raise
                        except Exception as e:      # noqa
                            results[(ti, j)] = ("raised", type(e).__name__ + ": " + str(e).split("\n")[0][:100])
                    return True
                return run
            for ti, hist in enumerate(case["threads"]):
                sim.spawn(worker(ti, hist))
            sim.run()
            ok = not sim.aborting
            if sim.deadlock is not None:
                V("deadlock", "threads deadlocked inside the lambda cache", threads=sim.deadlock)
        finally:
            patch.restore()
        if ok and not viol:
            with pair.reference.connect() as cr:
                for ti, hist in enumerate(case["threads"]):
                    for j, (fam, a) in enumerate(hist):
                        lam, direct, kind, desc = make(fam, a, None)
                        want = ("rows", CS.norm_rows(cr.execute(direct).all()))
                        got = results.get((ti, j))
                        if got is not None and got != want:
                            V("stale_or_wrong_lambda_result", "concurrent invocation of lambda family %s [%s] (model %s, lambda cache %d): lambda statement "
                              "gave %s, direct statement %s" % (fam, desc, case["model"], case["lcache"], repr(got)[:140], repr(want)[:140]),
                              thread=ti, op=j)
        pair.dispose()
        gc.collect()
    bump("steps", sim.steps)
    bump("context_switches", sim.context_switches)
    bump("model_" + case["model"])
    bump("thread_runs")
    return {"viol": viol, "digest": digest_of([case["threads"], sorted((k, repr(v)[:60]) for k, v in results.items()), sim.site_log]),
            "nontrivial": sim.context_switches > len(sim.threads), "counters": counters,
            "sets": {"interleavings": [sim.interleaving_digest()]}, "trace": sorted((k, v[0]) for k, v in results.items()),
            "switch_log": sim.switch_log}
