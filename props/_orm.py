"""shared generator / runner for the ormsim properties; each cNN.py module imports and parameterises this"""
import random

from simfw import ormrun as OR
from simfw import ormsim as OS

COMPONENTS_REAL = ["sqlalchemy.orm (Session, unit of work, identity map, attributes/backrefs, cascades, loading, state/lifecycle events)",
                   "sqlalchemy.ext.mutable", "pysqlite dialect + QueuePool", "stdlib sqlite3 on tmpfs (FK enforcement on)"]
COMPONENTS_STUB = ["op interpreter with state-relative arguments", "raw-connection / observer probes of the tables",
                   "DBAPI proxy (fault points)", "gc disabled; gc.collect() and drop-reference are scheduled operations"]
ASSUMPTIONS = ["single caller thread", "only documented usage is generated (see DESIGN §6 group D rules R1-R4)",
               "pure-Python implementations of the _cy modules ran"]

BASE_WEIGHTS = {"mk": 4, "mk_child": 4, "add": 2, "set": 4, "set_parent": 3, "bs_append": 2, "bs_remove": 2, "bs_replace": 1, "tag_add": 2,
                "tag_remove": 1, "node_parent": 2, "follow": 2, "unfollow": 1, "set_p": 1, "k_rename": 1, "h_doc": 1, "delete": 2, "expunge": 1,
                "flush": 4, "commit": 2, "rollback": 1, "begin_nested": 0, "sp_commit": 0, "sp_rollback": 0, "close": 0, "requery": 1, "get": 1,
                "lazy": 1, "expire": 0, "expire_all": 0, "refresh": 0, "mut_data": 0, "mut_items": 0, "ext_update": 0, "merge": 0, "drop": 0,
                "gc": 0, "pickle_rt": 0, "populate_existing": 0, "q_ops": 1, "g_ops": 2, "expire_attr": 0, "read": 0, "m_ops": 0, "m_reload": 0, "m_expire_part": 0, "stream": 0, "o_bounce": 0, "row_switch": 0, "expunge_owner": 0, "set_k": 1, "bulk": 0,
                "row_replace": 0, "label": 1, "make_transient": 0}


def setup():
    OS.setup()
    # warm-up: one history per universe
    for u in OS.CASCADES:
        OR.Run({"cfg": {"universe": u}, "prog": [["mk", 0, 1], ["mk_child", 0, 1], ["mk", 4, 1], ["flush", 0, 0], ["commit", 0, 0]]}).run()
    OS.freeze_gc()


def make_gen(weights, cfg_fn=None, nmin=8, nmax=40, shape=None, fault_fn=None):
    w = dict(BASE_WEIGHTS)
    w.update(weights)
    ops = [k for k, n in w.items() for _ in range(n)]

    def gen_case(rng, tier):
        cfg = {"universe": rng.choice(sorted(OS.CASCADES)), "autoflush": rng.random() < 0.7, "expire_on_commit": rng.random() < 0.7,
               "fk_on": True, "readd": rng.random() < 0.4, "sp_outer": rng.random() < 0.5, "expunge_midtxn": rng.random() < 0.5, "close_midtxn": rng.random() < 0.4}
        if cfg_fn:
            cfg_fn(rng, cfg)
        # swarm: drop a random subset of op kinds for this history
        drop = set(rng.sample(sorted(set(ops)), rng.randint(0, 6)))
        pool = [o for o in ops if o not in drop or o in ("mk", "mk_child", "flush")]
        prog = [[rng.choice(pool), rng.randrange(64), rng.randrange(64)] for _ in range(rng.randint(nmin, nmax))]
        if shape and rng.random() < 0.6:
            prog = shape(rng, pool, cfg) or prog
        return {"cfg": cfg, "prog": prog, "faults": fault_fn(rng, cfg, prog) if fault_fn else []}
    return gen_case


def hook_faults(rng, cfg, prog):
    """faults-on configuration (a fifth of the histories): an exception raised from a hook that runs inside flush, at a seeded ordinal;
    the harness answers with the documented recovery, Session.rollback()"""
    if rng.random() > 0.2:
        return []
    name = rng.choice(("persistent_to_deleted", "persistent_to_deleted", "pending_to_persistent", "before_flush", "after_flush",
                       "after_flush_postexec", "before_insert", "before_update", "before_delete", "after_delete"))
    return [["listener:" + name, rng.randint(1, 4), "raise"]]


def txn_faults(rng, cfg, prog):
    """faults-on configuration for the transaction-boundary properties (a quarter of the histories): the driver's ROLLBACK or COMMIT
    fails, or an after_rollback hook raises, at a seeded ordinal"""
    if rng.random() > 0.25:
        return []
    kind = rng.choice(("rollback", "rollback", "commit", "listener:after_rollback"))
    return [[kind, rng.randint(1, 3), "raise" if kind.startswith("listener") else "error"]]


def txn_blocks(rng, pool, cfg=None):
    """few objects, then blocks of [begin_nested]* work (begin_nested|flush-heavy)* end; faults land inside work that has in-flight state"""
    r = lambda: rng.randrange(64)
    prog = [[rng.choice(("mk", "mk", "mk_child", "q_ops", "g_ops")), r(), r()] for _ in range(rng.randint(1, 3))]
    focus_k = "k_rename" in pool and rng.random() < 0.3       # natural primary keys: identity-key switches inside (nested) transactions
    if focus_k:
        prog.insert(0, ["mk", 6, 1 + rng.randrange(60)])
    prog.append([rng.choice(("commit", "flush", "commit")), 0, 0])
    if rng.random() < 0.5:
        prog.append(["requery", r(), r()])
    work = [o for o in pool if o in ("set", "set", "delete", "k_rename", "mk", "mk_child", "set_parent", "bs_append", "bs_remove", "tag_add",
                                     "node_parent", "follow", "g_ops", "q_ops", "mut_data", "mut_items", "expire", "refresh", "lazy", "get")] or ["set"]
    if focus_k:
        work = work + ["k_rename"] * (len(work) // 2 + 1)
        if "expunge" in pool:
            work = work + ["expunge"] * (len(work) // 6 + 1)       # (mid-transaction expunge of a key-switched object, cfg expunge_midtxn)
    for _ in range(rng.randint(1, 4)):
        depth = 0
        for _ in range(rng.randint(0, 2)):
            prog.append(["begin_nested", 0, 0])
            depth += 1
        for _ in range(rng.randint(2, 7)):
            x = rng.random()
            if x < 0.35:
                prog.append(["flush", 0, 0])
            elif x < 0.42:
                prog.append(["begin_nested", 0, 0])
                depth += 1
            elif x < 0.5 and depth:
                prog.append([rng.choice(("sp_rollback", "sp_commit")), 0, 0])
                depth -= 1
            else:
                prog.append([rng.choice(work), rng.randrange(4), r()])
        while depth and rng.random() < 0.7:
            prog.append([rng.choice(("sp_rollback", "sp_rollback", "sp_commit")), 0, 0])
            depth -= 1
        prog.append([rng.choice(("rollback", "commit", "flush", "requery")), r(), r()])
    return prog


def sp_orphan_blocks(rng, pool, cfg=None):
    """delete-orphan members removed inside a SAVEPOINT that is rolled back, then touched again: owners with members, commit, (load),
    begin_nested, removals (flushed or not), savepoint rollback, plain column changes on whatever is there, flush"""
    r = lambda: rng.randrange(64)
    fam = rng.choice(("q", "q", "h", "g", "b"))
    mk = {"q": [["q_ops", r(), 0]], "h": [["mk_child", r(), 4 * rng.randrange(8)]], "g": [["g_ops", r(), 0]],
          "b": [["mk", rng.choice((0, 1, 2)), 1 + 3 * rng.randrange(20)], ["mk_child", 0, 1 + 4 * rng.randrange(8)],
                ["mk_child", 0, 2 + 4 * rng.randrange(8)]]}[fam]
    rm = {"q": lambda: ["q_ops", 2 * rng.randrange(8), 2], "h": lambda: ["h_doc", r(), 1 + 2 * rng.randrange(8)],
          "g": lambda: ["g_ops", r(), r()], "b": lambda: ["bs_remove", r(), r()]}[fam]
    prog = list(mk)
    if rng.random() < 0.4:
        prog += [[rng.choice(("mk", "q_ops", "g_ops")), r(), 0]]
    prog.append(["commit", 0, 0])
    if rng.random() < 0.5:
        prog.append([rng.choice(("requery", "lazy")), r(), r()])
    prog.append(["begin_nested", 0, 0])
    if rng.random() < 0.3:
        prog.append(["set", r(), r()])
    for _ in range(rng.randint(1, 2)):
        prog.append(rm())
    if rng.random() < 0.4:
        prog.append(["flush", 0, 0])
    prog.append([rng.choice(("sp_rollback", "sp_rollback", "sp_rollback", "sp_commit", "rollback")), 0, 0])
    for _ in range(rng.randint(1, 4)):
        prog.append(["set", r(), r()])
    prog.append([rng.choice(("flush", "commit")), 0, 0])
    prog += [[rng.choice(pool), r(), r()] for _ in range(rng.randint(0, 6))]
    return prog


def mixed(*shapes):
    """(probability, shape) pairs; the remainder goes to the last one"""
    def shape(rng, pool, cfg=None):
        x = rng.random()
        for pr, fn in shapes[:-1]:
            if x < pr:
                return fn(rng, pool, cfg)
            x -= pr
        return shapes[-1][1](rng, pool, cfg)
    return shape


# a history counts as non-trivial for a property only if the behaviour the property is about was actually exercised (measured from the
# per-run counters): C = counters
NONTRIVIAL = {
    "C30": lambda C: C.get("probe:flush_with_changes", 0) >= 2,
    "C31": lambda C: C.get("probe:flush_with_changes", 0) >= 1 and (C.get("op:delete", 0) + C.get("op:set_parent", 0) + C.get("op:node_parent", 0)
                                                                    + C.get("op:h_doc", 0) + C.get("op:label", 0) + C.get("op:k_rename", 0)) >= 1,
    "C33": lambda C: C.get("probe:flush_with_changes", 0) >= 1 and (C.get("op:rollback", 0) + C.get("op:sp_rollback", 0) + C.get("op:sp_commit", 0)) >= 1,
    "C34": lambda C: (C.get("op:get", 0) + C.get("op:requery", 0) + C.get("op:lazy", 0) + C.get("op:merge", 0) + C.get("op:refresh", 0)) >= 2,
    "C35": lambda C: C.get("probe:flush_with_changes", 0) >= 1 and (C.get("op:delete", 0) + C.get("op:expunge", 0) + C.get("op:rollback", 0)
                                                                    + C.get("op:sp_rollback", 0) + C.get("op:close", 0) + C.get("op:row_replace", 0)) >= 1,
    "C36": lambda C: C.get("probe:flush_with_changes", 0) >= 1 and (C.get("op:set", 0) + C.get("op:bs_remove", 0) + C.get("op:bs_replace", 0)
                                                                    + C.get("op:g_ops", 0) + C.get("op:set_p", 0) + C.get("op:tag_remove", 0)) >= 2,
    "C37": lambda C: (C.get("op:set_parent", 0) + C.get("op:bs_append", 0) + C.get("op:bs_remove", 0) + C.get("op:bs_replace", 0) + C.get("op:tag_add", 0)
                      + C.get("op:tag_remove", 0) + C.get("op:node_parent", 0) + C.get("op:follow", 0) + C.get("op:unfollow", 0) + C.get("op:set_p", 0)
                      + C.get("op:g_ops", 0)) >= 2,
    "C39": lambda C: C.get("probe:flush_with_changes", 0) >= 1 and (C.get("op:delete", 0) + C.get("op:bs_remove", 0) + C.get("op:h_doc", 0) + C.get("op:q_ops", 0)
                                                                    + C.get("op:g_ops", 0) + C.get("op:expunge", 0) + C.get("op:expire", 0)) >= 1,
    "C45": lambda C: sum(v for k, v in C.items() if k.startswith("probe:merge_")) >= 1,
    "C46": lambda C: C.get("probe:external_write", 0) >= 1 and (C.get("op:read", 0) + C.get("op:refresh", 0) + C.get("op:populate_existing", 0)
                                                                + C.get("op:requery", 0) + C.get("op:get", 0)) >= 1,
    "C47": lambda C: C.get("probe:autoflush", 0) >= 1,
    "C48": lambda C: C.get("probe:dropped_with_pending_change", 0) + C.get("probe:clean_object_released", 0) >= 1,
    "C49": lambda C: sum(v for k, v in C.items() if k.startswith("probe:mutable_") and not k.startswith("probe:mutable_roundtrip")) >= 1
    and C.get("probe:flush_with_changes", 0) >= 1,
}


NONTRIVIAL_TEXT = {
    "C30": "at least two flushes that had pending changes",
    "C31": "a flush with pending changes after at least one delete / re-parenting / orphaning / key change / label operation",
    "C33": "a flush with pending changes and at least one rollback, savepoint rollback or savepoint release",
    "C34": "at least two of get / query / lazy load / merge / refresh carried out",
    "C35": "a flush with pending changes and at least one delete / expunge / rollback / savepoint rollback / close / row replacement",
    "C36": "a flush with pending changes after at least two attribute or collection changes",
    "C37": "at least two relationship mutations carried out (not skipped)",
    "C39": "a flush with pending changes and at least one delete / orphaning / expunge / expire operation",
    "C45": "at least one merge carried out",
    "C46": "at least one external write followed by a read, refresh, populate_existing, query or get",
    "C47": "at least one read that autoflushed pending changes",
    "C48": "at least one object with a pending change dropped before the flush, or a clean object released",
    "C49": "at least one in-place mutation of a Mutable value and a flush with pending changes",
}


def make_run(props):
    def run_case(case):
        c = dict(case)
        c["stop_on"] = tuple(props)
        res = OR.Run(c).run()
        rule = NONTRIVIAL.get(props[0])
        if rule is not None:
            res["nontrivial"] = bool(rule(res["counters"]))
        mine, others = [], []
        for v in res["viol"]:
            if v["prop"] == "*":
                v = dict(v, prop=props[0], oracle=props[0] + ":" + v["oracle"].split(":", 1)[1])
            (mine if v["prop"] in props else others).append(v)
        for v in others:
            res["counters"]["cross:" + v["oracle"]] = res["counters"].get("cross:" + v["oracle"], 0) + 1
        res["viol"] = mine[:1]
        return res
    return run_case


def define(g, pid, props, title, technique, level_text, level_note, weights=None, cfg_fn=None, quick=4000, nmin=8, nmax=40, level="exploration",
           rule=None, shape=None, fault_fn=None):
    g.update(ID=pid, LEVEL=level, ENGINE="ormsim", TECHNIQUE=technique, LEVEL_TEXT=level_text, LEVEL_NOTE=level_note,
             TIERS={"quick": {"runs": quick, "secs": 35}, "thorough": {"runs": quick * 60, "secs": 420, "hashseeds": [0, 1, 2, 3]}},
             SHRINK=["prog", "faults"], MIN_BUDGET=250,
             RULE=rule or ("history = seeded op list with state-relative arguments + universe/config; distinct = digest of config, ops, "
                           "outcomes and per-step object state vectors; non-trivial = " + NONTRIVIAL_TEXT.get(pid, "at least one flush that "
                                                                                                              "had pending changes")),
             COMPONENTS_REAL=COMPONENTS_REAL, COMPONENTS_STUB=COMPONENTS_STUB, ASSUMPTIONS=ASSUMPTIONS, setup=setup,
             gen_case=make_gen(weights or {}, cfg_fn, nmin, nmax, shape, fault_fn), run_case=make_run(tuple(props)))
