"""shared generator / runner for the ormsim properties; each cNN.py module imports and parameterises this"""
import random

from simfw import ormrun as OR
from simfw import ormsim as OS

COMPONENTS_REAL = ["sqlalchemy.orm (Session, unit of work, identity map, attributes/backrefs, cascades, loading, state/lifecycle events)",
                   "sqlalchemy.ext.mutable", "pysqlite dialect + QueuePool", "stdlib sqlite3 on tmpfs (FK enforcement on)"]
COMPONENTS_STUB = ["op interpreter with state-relative arguments", "raw-connection / observer probes of the tables",
                   "DBAPI proxy (fault points)", "gc disabled; gc.collect() and drop-reference are scheduled operations"]
ASSUMPTIONS = ["single caller thread", "only documented usage is generated (see DESIGN §6 group D rules R1-R4)",
               "pure-Python implementations of the _cy modules ran"]

BASE_WEIGHTS = {"mk": 4, "mk_child": 4, "add": 2, "set": 4, "set_parent": 3, "bs_append": 2, "bs_remove": 2, "bs_replace": 1, "tag_add": 2,
                "tag_remove": 1, "node_parent": 2, "follow": 2, "unfollow": 1, "set_p": 1, "k_rename": 1, "h_doc": 1, "delete": 2, "expunge": 1,
                "flush": 4, "commit": 2, "rollback": 1, "begin_nested": 0, "sp_commit": 0, "sp_rollback": 0, "close": 0, "requery": 1, "get": 1,
                "lazy": 1, "expire": 0, "expire_all": 0, "refresh": 0, "mut_data": 0, "mut_items": 0, "ext_update": 0, "merge": 0, "drop": 0,
                "gc": 0, "pickle_rt": 0, "populate_existing": 0, "q_ops": 1}


def setup():
    OS.setup()
    # warm-up: one history per universe
    for u in OS.CASCADES:
        OR.Run({"cfg": {"universe": u}, "prog": [["mk", 0, 1], ["mk_child", 0, 1], ["mk", 4, 1], ["flush", 0, 0], ["commit", 0, 0]]}).run()
    OS.freeze_gc()


def make_gen(weights, cfg_fn=None, nmin=8, nmax=40):
    w = dict(BASE_WEIGHTS)
    w.update(weights)
    ops = [k for k, n in w.items() for _ in range(n)]

    def gen_case(rng, tier):
        cfg = {"universe": rng.choice(sorted(OS.CASCADES)), "autoflush": rng.random() < 0.7, "expire_on_commit": rng.random() < 0.7,
               "fk_on": True}
        if cfg_fn:
            cfg_fn(rng, cfg)
        # swarm: drop a random subset of op kinds for this history
        drop = set(rng.sample(sorted(set(ops)), rng.randint(0, 6)))
        pool = [o for o in ops if o not in drop or o in ("mk", "mk_child", "flush")]
        prog = [[rng.choice(pool), rng.randrange(64), rng.randrange(64)] for _ in range(rng.randint(nmin, nmax))]
        return {"cfg": cfg, "prog": prog, "faults": []}
    return gen_case


def make_run(props):
    def run_case(case):
        c = dict(case)
        c["stop_on"] = tuple(props)
        res = OR.Run(c).run()
        mine, others = [], []
        for v in res["viol"]:
            (mine if v["prop"] in props else others).append(v)
        for v in others:
            res["counters"]["cross:" + v["oracle"]] = res["counters"].get("cross:" + v["oracle"], 0) + 1
        res["viol"] = mine[:1]
        return res
    return run_case
