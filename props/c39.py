"""C39 — cascades follow their configured rules (ormsim)."""
from props import _orm

_orm.define(globals(), "C39", ("C39",), "cascades",
            "deterministic simulation: seeded ORM session histories over 4 cascade configurations (default / all / all,delete-orphan with nullable "
            "and NOT NULL FK) plus many-to-one and unidirectional delete-orphan chains; rule functions over the objects' loaded state decide "
            "which objects must join the session, be expunged, expired or deleted; orphan rows are probed after every flush, and conversely a member "
            "that a live parent still holds and nobody marked for deletion must survive it (also after a savepoint rollback discarded the "
            "removal); expunge of an owner whose loaded collection holds a member already in the 'deleted' state, followed by rollback",
            "seeded search over histories mixing add / collection and reference changes / delete / expunge / expire with flushes; after add the "
            "save-update closure must be in the session (and nothing unreachable), after flush no delete-orphan child without parent may have a "
            "row, removed-and-not-reassociated orphans must be gone, expunge/expire reach the configured closure.  Sampled.",
            "closures are computed from loaded attribute values only; merge cascade is judged by C45",
            weights={"bs_remove": 4, "bs_replace": 2, "h_doc": 3, "q_ops": 5, "delete": 3, "expunge": 2, "expire": 2, "set_parent": 4, "expunge_owner": 2},
            shape=_orm.mixed((0.3, _orm.sp_orphan_blocks), (1, lambda rng, pool, cfg=None: None)))
