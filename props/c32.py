"""C32 — a failed flush leaves the database untouched and the session recoverable (ormsim; fault enumeration over crash points)."""
import random

from props import _orm
from simfw import ormsim as OS

ID = "C32"
LEVEL = "fault_enumeration"
ENGINE = "ormsim"
TECHNIQUE = ("deterministic simulation with fault injection: a seeded ORM history (committed prefix, then one transaction of adds, changes, "
             "deletes, relationship moves, queries and lazy loads with autoflush, savepoints) is first run fault-free to record every DML "
             "statement the DBAPI proxy saw and every ORM flush hook invocation of that transaction; it is then re-run once per position "
             "with a driver error, an injected IntegrityError or a disconnect at that statement, an exception raised from that hook, or a "
             "real primary-key conflict planted by a second connection; around the documented recovery (Session.rollback) the committed "
             "rows, the objects' states, their reloaded attributes and collections are compared with the rows at the start of the "
             "transaction, and the same work repeated on the same Session must end in the rows of the fault-free run")
LEVEL_TEXT = ("every DML statement and every flush / mapper / lifecycle hook invocation of the sampled transaction is a fault position "
              "(capped per history in the quick tier, all in the thorough tier) x fault kinds error / integrity / disconnect / "
              "listener_exception, plus one real constraint conflict per class created; histories are sampled")
LEVEL_NOTE = ("SQLite only; faults in SELECTs, COMMIT and ROLLBACK themselves belong to C27 / C23; the retry runs on fresh objects loaded by "
              "the same Session after the rollback")
TIERS = {"quick": {"runs": 400, "secs": 40, "per_base": 30}, "thorough": {"runs": 40000, "secs": 480, "hashseeds": [0, 1, 2, 3], "per_base": 400}}
SHRINK = ["prog"]
MIN_BUDGET = 200
RULE = ("evaluation = one run of a history with one fault plan (base runs are fault-free); distinct = digest of config, ops, fault plan and "
        "outcomes; non-trivial = a fault fired inside a flush that had pending changes and the recovery checks ran")
COMPONENTS_REAL, COMPONENTS_STUB, ASSUMPTIONS = _orm.COMPONENTS_REAL, _orm.COMPONENTS_STUB, _orm.ASSUMPTIONS
setup = _orm.setup

P_OPS = ["mk", "mk", "mk_child", "mk_child", "set", "set_parent", "tag_add", "follow", "node_parent", "q_ops", "g_ops", "m_ops", "set_p", "flush",
         "commit", "h_doc", "k_rename"]
T_OPS = ["label", "set_k", "mk", "mk", "mk", "mk_child", "mk_child", "set", "set", "set", "set_parent", "set_parent", "bs_append", "bs_remove", "bs_replace",
         "tag_add", "tag_remove", "node_parent", "follow", "unfollow", "k_rename", "h_doc", "delete", "delete", "flush", "flush", "requery",
         "get", "lazy", "lazy", "q_ops", "g_ops", "g_ops", "mut_data", "mut_items", "m_ops", "m_ops", "begin_nested", "sp_commit", "sp_rollback",
         "set_p", "read"]


def gen_case(rng, tier):
    cfg = {"universe": rng.choice(sorted(OS.CASCADES)), "autoflush": rng.random() < 0.75, "expire_on_commit": rng.random() < 0.7, "fk_on": True}
    r = lambda: rng.randrange(64)
    prog = [[rng.choice(P_OPS), r(), r()] for _ in range(rng.randint(3, 14))]
    prog.append(["reset", 0, 0])
    drop = set(rng.sample(sorted(set(T_OPS)), rng.randint(0, 8)))
    pool = [o for o in T_OPS if o not in drop or o in ("mk", "set", "flush")]
    prog += [[rng.choice(pool), r(), r()] for _ in range(rng.randint(3, 16))]
    return {"cfg": cfg, "prog": prog, "faults": [], "c32": True, "per_base": TIERS[tier]["per_base"]}


_run = _orm.make_run(("C32",))


def run_case(case):
    res = _run(case)
    c = res["counters"]
    res["nontrivial"] = c.get("probe:recovered_after_fault", 0) > 0
    return res


def derive_cases(case, res):
    d = res.get("derive")
    if not d:
        return
    plans = []
    for pred, n in d["points"]:
        for kind in ("error", "integrity", "disconnect"):
            plans.append([[pred, n, kind]])
    for name, n in d["lpoints"]:
        plans.append([["listener:" + name, n, "raise"]])
    for cn in d["created"]:
        plans.append([["plant:" + cn, 1, "conflict"]])
    cap = case.get("per_base", 30)
    if len(plans) > cap:
        rng = random.Random(case["seed"] ^ 0xC32)
        plans = rng.sample(plans, cap)
    for pl in plans:
        c = dict(case)
        c["faults"] = pl
        c["expect_final"] = d["final"]
        yield c
