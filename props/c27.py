"""C27 — a database disconnect invalidates the connection and blocks silent continuation.

Sequential fault enumeration: a generated history over up to three Connections of one Engine (QueuePool over the fault-capable
sqlite3 proxy; idle pooled connections exist before the failure) is run clean, then re-run with a disconnect -- the real
driver connection is closed underneath, so pysqlite itself raises its disconnect signature -- or an ordinary driver error at
every DBAPI call position, plus sampled multi-fault plans (server down for the next reconnects, second failure later).
The model follows the *observed* fault firings and predicts, per operation: exception class, connection_invalidated,
Connection.invalidated, PendingRollbackError until rollback(), transparent reconnect on a new driver connection, and which
pooled driver connections may still be handed out (generation rule of Pool._invalidate).
"""
import gc
import os
import shutil
import sqlite3
import tempfile
import warnings

from simfw import ledger as L
from simfw import sqlproxy as SP
from simfw.core import digest_of

ID = "C27"
LEVEL = "fault_enumeration"
ENGINE = "dbsim"
TECHNIQUE = ("deterministic simulation: fault enumeration (disconnect / ordinary error at every DBAPI call, plus sampled multi-fault plans "
             "with failing reconnects) over seeded multi-connection histories on real SQLite behind a proxy; virtual pool clock; "
             "per-operation reference model of invalidation, pending-rollback and pool generations")
LEVEL_TEXT = ("every DBAPI call of each seeded history is a position where a real disconnect (driver connection closed underneath) and an "
              "ordinary error are each injected in a rerun; sampled 2-3 fault plans add failing reconnects and later unrelated errors; "
              "handle_error listeners that alter the classification are part of the configuration.  Evidence over sampled histories.")
LEVEL_NOTE = ("SQLite/pysqlite + QueuePool only; single caller thread; pool clock is virtual; the pool-generation rule of Pool._invalidate "
              "(an invalidation triggered by a connection older than the previous invalidation starts no new generation) is part of the model")
TIERS = {
    "quick": {"runs": 1000, "secs": 30},
    "thorough": {"runs": 40000, "secs": 420, "hashseeds": [0, 1]},
}
SHRINK = ["prog", "faults"]
MIN_BUDGET = 200
RULE = ("base history = seeded op list over <=3 Connections; derived = one rerun per (DBAPI call, {disconnect, error}) + sampled multi-fault "
        "plans; distinct = digest of ops, faults and outcomes; non-trivial = a fault fired while >=1 other pooled connection existed")
COMPONENTS_REAL = ["sqlalchemy.engine.base.Connection (_handle_dbapi_exception, invalidate, _revalidate_connection, transactions)",
                   "sqlalchemy.pool QueuePool / _ConnectionRecord / Pool._invalidate", "pysqlite dialect is_disconnect", "stdlib sqlite3"]
COMPONENTS_STUB = ["DBAPI proxy (fault points; disconnect = really close the sqlite3 handle)", "virtual clock for sqlalchemy.pool.base.time"]
ASSUMPTIONS = ["pure-Python implementations of the _cy modules ran"]

_m = {}
_dir = [None]
OPS = ["open", "open", "close", "sel", "sel", "ins", "ins", "begin", "commit", "rollback", "bad"]



def _workdir():
    """one directory per worker process: SQLite creates and deletes journal files all the time, and sixteen workers doing that in one
    tmpfs directory serialise on it"""
    d = os.path.join(_dir[0], "p%d" % os.getpid())
    os.makedirs(d, exist_ok=True)
    return d

def setup():
    from sqlalchemy import create_engine, text, exc, event, pool
    import sqlalchemy.pool.base as pbase
    _m.update(create_engine=create_engine, text=text, exc=exc, event=event, pool=pool, pbase=pbase)
    _dir[0] = tempfile.mkdtemp(prefix="verif-c27-", dir="/dev/shm" if os.path.isdir("/dev/shm") else None)
    import atexit
    atexit.register(lambda: shutil.rmtree(_dir[0], ignore_errors=True))
    gc.disable()
    gc.collect()
    gc.freeze()
    import sys
    sys.unraisablehook = lambda *a: None


def gen_case(rng, tier):
    n = rng.randint(5, 18)
    prog = [["open", 0], ["open", 1], ["sel", 0], ["sel", 1]] if rng.random() < 0.6 else []
    for _ in range(n):
        prog.append([rng.choice(OPS), rng.randrange(3)])
    return {"cfg": {"listener": rng.choice(["none", "none", "no_pool_invalidate", "error_is_disconnect"]),
                    "warm": rng.randint(0, 3)},
            "prog": prog, "faults": []}


def derive_cases(case, res):
    import random
    singles = []
    for kind, head, cid, n in res["points"]:
        if kind in ("execute", "commit", "rollback"):
            singles.append([kind, n, "disconnect"])
            singles.append([kind, n, "error"])
    for s in singles:
        c = dict(case)
        c["faults"] = [s]
        yield c
    rng = random.Random(case["seed"] ^ 0xC27)
    nconn = sum(1 for p in res["points"] if p[0] == "connect")
    discs = [s for s in singles if s[2] == "disconnect"]
    for _ in range(min(24, len(discs))):
        first = rng.choice(discs)
        plan = [first]
        # the server stays away for the next 1-2 connection attempts (raising the disconnect signature or a plain error) ...
        for k in range(rng.randint(1, 2)):
            plan.append(["connect", nconn + 1 + k, rng.choice(["disconnect", "disconnect", "error"])])
        # ... and much later an unrelated ordinary error happens
        later = [s for s in singles if s[2] == "error"]
        if later:
            plan.append(rng.choice(later))
        keys = set()
        ok = True
        for p in plan:
            if (p[0], p[1]) in keys:
                ok = False
            keys.add((p[0], p[1]))
        if ok:
            c = dict(case)
            c["faults"] = sorted(plan)
            yield c


class MC:
    """model of one Connection"""

    def __init__(self):
        self.open = False
        self.real = None
        self.tx = False            # SQLAlchemy-level transaction in progress (autobegin or begin())
        self.invalid = False       # invalidated, will reconnect on next use
        self.pending = False       # invalidated inside a transaction: PendingRollbackError until rollback()
        self.dbapi = None          # PConn id in use
        self.dead = False          # driver connection is dead but SQLAlchemy was told it is not a disconnect
        self.writer = False        # holds SQLite's write lock (uncommitted INSERT)


def run_case(case):
    create_engine, text, exc, event, pool = _m["create_engine"], _m["text"], _m["exc"], _m["event"], _m["pool"]
    pbase = _m["pbase"]
    cfg = case["cfg"]
    path = os.path.join(_workdir(), "t.db")
    for suffix in ("", "-journal"):
        try:
            os.unlink(path + suffix)
        except OSError:
            pass
    boot = sqlite3.connect(path, isolation_level=None)
    boot.execute("create table t (v integer primary key)")
    boot.execute("insert into t values (-1)")
    boot.close()
    clock = L.VClock()
    old_time = pbase.time
    pbase.time = L.TimeShim(clock)
    plan = SP.Plan(case["faults"])
    mod = SP.make_module(plan)
    eng = create_engine("sqlite:///" + path, module=mod, connect_args={"timeout": 0}, poolclass=pool.QueuePool,
                        pool_size=4, max_overflow=0, pool_timeout=0.01)
    viol = []
    trace = []
    counters = {}

    def bump(k, n=1):
        counters[k] = counters.get(k, 0) + n

    def V(oracle, sig, **detail):
        if not viol:
            viol.append({"oracle": oracle, "sig": sig, "detail": detail})

    lst = cfg["listener"]
    if lst != "none":
        @event.listens_for(eng, "handle_error")
        def on_error(ctx):
            if lst == "no_pool_invalidate":
                ctx.invalidate_pool_on_disconnect = False
            elif lst == "error_is_disconnect":
                if "injected error" in str(ctx.original_exception):
                    ctx.is_disconnect = True

    created = {}            # PConn id -> virtual time of creation
    eff_inval = [0.0]       # effective pool invalidation time (generation rule)
    discarded = set()       # PConn ids that must never be handed out again
    closed_by_app = set()
    handouts = []

    @event.listens_for(eng, "connect")
    def on_connect(dbc, rec):
        created[dbc.id] = clock.peek()

    @event.listens_for(eng, "checkout")
    def on_checkout(dbc, rec, fairy):
        handouts.append(dbc.id)
        if dbc.id in discarded:
            V("discarded_connection_reused", "driver connection %d that was discarded by a disconnect is handed out again" % dbc.id)
        elif created.get(dbc.id, 1e18) <= eff_inval[0]:
            V("pre_failure_connection_reused", "pooled driver connection %d opened before the disconnect is handed out again "
              "(listener=%s)" % (dbc.id, lst))

    conns = [MC(), MC(), MC()]
    first_point = 0
    next_val = [0]
    nontrivial = [False]

    def classify(e):
        return getattr(e, "connection_invalidated", None)

    try:
        with warnings.catch_warnings():
            warnings.simplefilter("ignore")
            # idle pooled connections that exist before any failure
            plan.enabled = False        # dialect initialisation / warm-up is not a fault target
            warm = [eng.connect() for _ in range(max(1, cfg["warm"]))]
            for w in warm:
                w.execute(text("select 1"))
                w.close()
            del warm
            plan.enabled = True
            first_point = len(plan.calls)
            for i, (op, ci) in enumerate(case["prog"]):
                m = conns[ci]
                out = "ok"
                calls0 = len(plan.calls)
                fired0 = len(plan.fired)
                if op != "open" and not m.open:
                    trace.append([i, op, ci, "skip"])
                    continue
                if op == "open" and m.open:
                    trace.append([i, op, ci, "skip"])
                    continue
                if op == "begin" and (m.tx or m.pending):
                    op = "sel"          # begin() inside a transaction is a usage error, not this property's subject
                if op in ("ins", "bad") and any(o is not m and o.open and o.writer for o in conns):
                    op = "sel"          # SQLite is single-writer: a second writer would only meet "database is locked"
                err = None
                try:
                    if op == "open":
                        m.real = None
                        m.real = eng.connect()
                        m.open, m.tx, m.invalid, m.pending, m.dead = True, False, False, False, False
                        m.dbapi = m.real.connection.dbapi_connection.id
                    elif op == "close":
                        m.real.close()
                        m.open = False
                    elif op == "sel":
                        m.real.execute(text("select count(*) from t")).scalar()
                    elif op == "ins":
                        next_val[0] += 1
                        m.real.execute(text("insert into t (v) values (:v)"), {"v": next_val[0]})
                    elif op == "bad":
                        m.real.execute(text("insert into t (v) values (-1)"))      # duplicate key: a genuine non-disconnect error
                    elif op == "begin":
                        m.real.begin()
                    elif op == "commit":
                        m.real.commit()
                    elif op == "rollback":
                        m.real.rollback()
                except exc.SQLAlchemyError as e:
                    err = e
                except sqlite3.Error as e:
                    err = e
                new_fired = plan.fired[fired0:]
                reached_dbapi = len(plan.calls) > calls0
                # ---------------------------------------------------------------- expectations
                was_pending, was_invalid, was_tx, was_dead = m.pending, m.invalid, m.tx, m.dead
                fault = new_fired[0] if new_fired else None
                if len(new_fired) > 1:
                    bump("probe:two_faults_in_one_op")
                if fault is not None and len(plan.conns) > 1:
                    nontrivial[0] = True
                if op == "open":
                    if err is not None:
                        m.open = False
                        out = "open-failed"
                        if fault is None:
                            V("unexpected_raise", "Engine.connect() raised %s with no fault in this operation" % type(err).__name__, op=i)
                elif op == "close":
                    if fault is not None and fault[0] != "connect" and (
                            fault[2] == "disconnect" or (lst == "error_is_disconnect" and fault[2] == "error")):
                        discarded.add(fault[3])
                        # with a transaction open, close() rolls it back as a *statement-level* operation of the Connection
                        # (disconnect handling applies); otherwise the failing call is the pool's own reset-on-return, which only
                        # discards that one connection (C26's subject)
                        if was_tx and lst != "no_pool_invalidate" and eff_inval[0] < created.get(fault[3], 0):
                            eff_inval[0] = clock.peek()
                    m.open = False
                    m.real = None         # whatever close() managed to do, the application lets go of the Connection
                    m.tx = m.pending = m.invalid = False
                    if err is not None and fault is None and not was_dead:
                        V("close_raised", "Connection.close() raised %s with no fault in this operation" % type(err).__name__, op=i)
                    out = "closed" if err is None else "raised:" + type(err).__name__
                elif was_pending and op in ("sel", "ins", "bad", "commit", "begin"):
                    # silent continuation is blocked until rollback()
                    if op == "begin" and not isinstance(err, exc.SQLAlchemyError):
                        V("continued_after_disconnect", "begin() succeeded on a connection invalidated inside a transaction, before rollback()", op=i)
                    elif op != "begin" and not isinstance(err, exc.PendingRollbackError):
                        V("continued_after_disconnect", "%s on a connection invalidated inside a transaction did not raise "
                          "PendingRollbackError before rollback() (got %s)" % (op, type(err).__name__ if err else "success"), op=i)
                    elif reached_dbapi:
                        V("continued_after_disconnect", "%s reached the DBAPI although the connection awaits rollback()" % op, op=i)
                    out = "pending-rollback"
                elif op == "rollback" and was_pending:
                    if err is not None:
                        V("rollback_failed_after_disconnect", "rollback() on an invalidated connection raised %s" % type(err).__name__, op=i)
                    m.pending = False
                    m.tx = False
                    out = "rolled-back"
                else:
                    reconnecting = was_invalid and op in ("sel", "ins", "bad", "begin")
                    if fault is None:
                        if op == "bad":
                            if not isinstance(err, exc.IntegrityError) and not was_dead:
                                V("wrong_exception", "duplicate key insert raised %r" % (type(err).__name__ if err else None), op=i)
                            elif err is not None and classify(err) and not was_dead:
                                V("error_treated_as_disconnect", "IntegrityError was flagged connection_invalidated=True (listener=%s)" % lst, op=i)
                            if not was_dead:
                                m.tx = True
                                if m.real.invalidated:
                                    V("error_treated_as_disconnect", "an ordinary IntegrityError invalidated the Connection (listener=%s)" % lst, op=i)
                        elif err is not None and not was_dead:
                            V("unexpected_raise", "%s raised %s: %s with no fault in this operation" % (op, type(err).__name__, str(err)[:80]), op=i)
                        else:
                            if op in ("sel", "ins", "begin"):
                                m.tx = True
                            elif op in ("commit", "rollback"):
                                m.tx = False
                        if reconnecting and err is None or (reconnecting and op == "bad"):
                            m.invalid = False
                            newid = m.real.connection.dbapi_connection.id
                            if newid == m.dbapi:
                                V("no_reconnect", "connection continued on the same dead driver connection after invalidation", op=i)
                            m.dbapi = newid
                            bump("probe:transparent_reconnect")
                    else:
                        fkey, fn, fkind, fcid = fault
                        if fkey == "connect":
                            # reconnect attempt failed: the connection stays invalidated, nothing else changes
                            if err is None:
                                V("fault_swallowed", "a failing connect produced no exception", op=i)
                            out = "reconnect-failed"
                            bump("probe:reconnect_failed_while_invalidated")
                        else:
                            is_disc = fkind == "disconnect" or (lst == "error_is_disconnect" and fkind == "error")
                            if err is None:
                                V("fault_swallowed", "a driver %s at %s produced no exception" % (fkind, fkey), op=i)
                            elif not isinstance(err, exc.DBAPIError):
                                V("wrong_exception", "driver %s at %s surfaced as %s" % (fkind, fkey, type(err).__name__), op=i)
                            elif bool(classify(err)) != is_disc:
                                V("wrong_classification", "driver %s at %s: connection_invalidated=%s, expected %s (listener=%s)"
                                  % (fkind, fkey, classify(err), is_disc, lst), op=i)
                            elif is_disc:
                                if not m.real.invalidated:
                                    V("not_invalidated", "Connection.invalidated is False after a disconnect at %s" % fkey, op=i)
                                tx_open = was_tx or op in ("sel", "ins", "bad", "begin")
                                if reconnecting:
                                    m.invalid = False
                                    m.dbapi = fcid
                                discarded.add(fcid)
                                if lst != "no_pool_invalidate":
                                    if eff_inval[0] < created.get(fcid, 0):
                                        eff_inval[0] = clock.peek()
                                m.invalid = True
                                m.pending = tx_open and op != "rollback" and not (op == "commit" and not was_tx)
                                if op in ("commit", "rollback"):
                                    # the transaction object is gone only if SQLAlchemy could end it
                                    m.pending = op == "commit" and was_tx
                                m.tx = m.pending
                                bump("probe:disconnect_handled")
                                if m.pending:
                                    bump("probe:disconnect_inside_transaction")
                            else:
                                if fkind == "disconnect":
                                    m.dead = True
                                if m.real.invalidated:
                                    V("error_treated_as_disconnect", "an ordinary driver error at %s invalidated the Connection (listener=%s)"
                                      % (fkey, lst), op=i)
                                closes = [c for c in plan.calls[calls0:] if c[0] in ("close", "connect")]
                                if reconnecting:
                                    closes = []          # the transparent reconnect of this very operation (may recycle stale idle ones)
                                    m.invalid = False
                                    m.dbapi = m.real.connection.dbapi_connection.id if m.real.connection is not None else m.dbapi
                                if closes:
                                    V("error_treated_as_disconnect", "an ordinary driver error at %s made the pool close/open driver connections %s"
                                      % (fkey, closes), op=i)
                                if op in ("sel", "ins", "bad", "begin"):
                                    m.tx = True
                                if op == "commit":
                                    m.tx = False       # failed COMMIT: transaction awaits rollback (C23's subject); stop modelling tx here
                                    m.dead = True
                                bump("probe:ordinary_error_handled")
                if out == "ok" and err is not None:
                    out = "raised:" + type(err).__name__
                for c_kind, _h, c_id, _n in plan.calls[calls0:]:
                    if c_kind == "close" and c_id >= 0:
                        healthy = (created.get(c_id, 0) > eff_inval[0] and c_id not in discarded and not plan.conns[c_id].killed
                                   and c_id not in closed_by_app)
                        if healthy and not (op == "close"):
                            V("healthy_connection_closed", "the pool closed healthy driver connection %d during %s although no disconnect "
                              "concerned it (listener=%s)" % (c_id, op, lst), op=i)
                if fault is not None and fault[2] == "error" and op in ("close", "rollback", "commit"):
                    # a transaction-ending call failed with an ordinary error: locks/transaction state of that driver connection
                    # are now outside this model (C23/C24 judge that); the verdicts for this operation are in, stop the history
                    trace.append([i, op, ci, out + "|stop"])
                    break
                if op in ("ins", "bad") and not m.pending and not m.invalid:
                    m.writer = True
                if op in ("commit", "rollback", "close") or m.invalid or m.pending or not m.open:
                    m.writer = False
                err = None
                trace.append([i, op, ci, out])
                if viol:
                    break
            # ---- epilogue: faults stop; every connection rolls back / closes; the engine must work on fresh connections
            if not viol:
                plan.enabled = False
                for m in conns:
                    if m.open:
                        try:
                            m.real.rollback()
                        except exc.SQLAlchemyError:
                            pass
                        try:
                            m.real.close()
                        except (exc.SQLAlchemyError, sqlite3.Error):
                            pass
                        m.open = False
                try:
                    c = eng.connect()
                    c.execute(text("select count(*) from t")).scalar()
                    c.commit()
                    c.close()
                except (exc.SQLAlchemyError, sqlite3.Error) as e:
                    V("engine_unusable_after_faults", "connect/select after all faults stopped raised %s: %s" % (type(e).__name__, str(e)[:100]))
    finally:
        pbase.time = old_time
        for m in conns:
            m.real = None
        try:
            eng.dispose()
        except Exception:
            pass
        gc.collect()
    for k, n, f, cid in plan.fired:
        bump("fault:%s_%s" % (k, f))
    bump("listener_" + lst)
    points = [list(c) for c in plan.calls[first_point:]]
    return {"viol": viol, "digest": digest_of([cfg, case["prog"], case["faults"], trace, handouts]), "nontrivial": nontrivial[0],
            "counters": counters, "sets": {"abstract_states": [[len(plan.conns), len(plan.fired), len(discarded)]]},
            "trace": trace, "points": points}
