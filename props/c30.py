"""C30 — flush writes exactly the in-memory object graph to the database (ormsim; faults off)."""
from props import _orm

ID = "C30"
LEVEL = "exploration"
ENGINE = "ormsim"
TECHNIQUE = ("deterministic simulation: seeded ORM session histories on real SQLite; after every flush/commit the probed rows are compared with "
             "the rows implied by the in-memory state of the objects the session holds, rows of everything else must be untouched; after "
             "commit a fresh Session must reproduce the graph; includes row switches (delete + add of the same primary key in one flush)")
LEVEL_TEXT = ("seeded search over session histories (add, scalar and relationship changes on one-to-many / many-to-one / one-to-one / many-to-many "
              "incl. self-referential, joined inheritance, natural-PK change, delete, expunge, flush/commit/rollback, queries, lazy loads) over 4 "
              "cascade configurations; self-consistency oracle evaluated from raw-connection probes after each flush.  Sampled.")
LEVEL_NOTE = "SQLite only; association objects and composites are not part of the universe; all primary keys are assigned by the harness"
TIERS = {"quick": {"runs": 5000, "secs": 35}, "thorough": {"runs": 200000, "secs": 420, "hashseeds": [0, 1, 2, 3]}}
SHRINK = ["prog"]
MIN_BUDGET = 250
RULE = ("history = seeded op list with state-relative arguments + universe/config; distinct = digest of config, ops and outcomes; non-trivial = "
        "at least one flush that had pending changes")
COMPONENTS_REAL, COMPONENTS_STUB, ASSUMPTIONS = _orm.COMPONENTS_REAL, _orm.COMPONENTS_STUB, _orm.ASSUMPTIONS
setup = _orm.setup


def _cfg(rng, cfg):
    cfg["fk_on"] = rng.random() < 0.6      # with enforcement off a wrong or missing statement shows up as a row mismatch instead of an error


def _shape(rng, pool, cfg):
    """natural primary key changes while rows of other classes (base and joined-table subclass instances) refer to the key"""
    if rng.random() > 0.15:
        return None
    r = lambda: rng.randrange(64)
    odd3 = lambda: 1 + 3 * rng.randrange(20)
    prog = [["mk", rng.choice((0, 1, 2, 2)), odd3()] for _ in range(rng.randint(1, 3))] + [["mk", 6, odd3()] for _ in range(rng.randint(1, 2))]
    prog += [["set_k", r(), 1 + 4 * rng.randrange(15) + rng.randrange(3)] for _ in range(rng.randint(1, 4))]
    prog.append([rng.choice(("commit", "flush", "commit")), 0, 0])
    for _ in range(rng.randint(1, 3)):
        prog.append(["k_rename", r(), r()])
        prog.append([rng.choice(("flush", "requery", "set", "set_k", "commit")), r(), r()])
    prog += [[rng.choice(pool), r(), r()] for _ in range(rng.randint(0, 8))]
    return prog


gen_case = _orm.make_gen({"follow": 5, "delete": 4, "tag_add": 3, "set_k": 4, "k_rename": 3, "bulk": 1, "m_ops": 1, "row_switch": 3, "node_parent": 3}, _cfg, shape=_shape)
run_case = _orm.make_run(("C30",))
