"""C25 — the pool never hands one connection to two holders and respects its limits, under any interleaving.

threadsim: 2-5 real worker threads parked/released by a seeded scheduler, pre-empted at sim primitives, at
settrace pre-emption points inside pool/impl.py, pool/base.py, util/queue.py, event/attr.py and at every
ledger DBAPI call; virtual clock for pool timeouts.  Invariants are judged from the ledger and the harness'
own holder registry, not from the pool's counters.
"""
import gc

from simfw import ledger as L
from simfw import threadsim as TS
from simfw.core import digest_of

ID = "C25"
LEVEL = "exploration"
ENGINE = "threadsim"
TECHNIQUE = ("deterministic simulation: seeded scheduler (random-walk + PCT, schedule models G/F) over real parked threads "
             "with simulated Lock/RLock/Condition, settrace pre-emption, virtual clock; ledger DBAPI; invariants at every decision point")
LEVEL_TEXT = ("seeded search over thread interleavings of generated checkout/use/checkin/invalidate/drop/timeout workloads on the real "
              "QueuePool (FIFO/LIFO), NullPool and SingletonThreadPool; exclusivity, open/idle limits, checked-out accounting, lost wake-ups "
              "and early timeouts are checked during the run from an independent ledger.  Sampled schedules, not exhaustive.")
LEVEL_NOTE = ("pre-emption at line granularity (model F) or after call/back-edge lines (model G) in the traced files only; C code atomic; "
              "sim Lock/RLock/Condition replace threading primitives; AsyncAdaptedQueuePool is exercised under loopsim (C29), not here")
TIERS = {
    "quick": {"runs": 4000, "secs": 30},
    "thorough": {"runs": 80000, "secs": 480, "hashseeds": [0, 1]},
}
SHRINK = ["switches"]
MIN_BUDGET = 120
RULE = ("one run = seeded pool config + per-worker op lists + seeded schedule (policy, model); distinct = digest of the interleaving "
        "(thread, site) switch sequence + op outcomes; non-trivial = >=1 context switch at a pre-emption point and >=2 workers reached the pool")
COMPONENTS_REAL = ["sqlalchemy.pool.impl.QueuePool/NullPool/SingletonThreadPool", "sqlalchemy.pool.base", "sqlalchemy.util.queue.Queue",
                   "sqlalchemy.event.attr dispatch"]
COMPONENTS_STUB = ["thread scheduler + sim Lock/RLock/Condition", "virtual clock", "ledger DBAPI", "gc disabled during runs"]
ASSUMPTIONS = ["switches happen only at traced line boundaries / sim primitives / DBAPI calls", "model G treats every CALL as a possible switch",
               "dispose() and detach() are excluded (documented to step outside the limits)",
               "pure-Python implementations of the _cy modules ran"]

class InjectedListenerError(Exception):
    pass


TRACE = ("pool/impl.py", "pool/base.py", "util/queue.py", "event/attr.py")
_m = {}


def setup():
    import sqlalchemy.pool.base as pbase
    import sqlalchemy.pool.impl as pimpl
    import sqlalchemy.util.queue as squeue
    import sqlalchemy.event.attr as eattr
    import sqlalchemy.util as sautil
    from sqlalchemy import pool, exc, event
    _m.update(pbase=pbase, pimpl=pimpl, squeue=squeue, eattr=eattr, pool=pool, exc=exc, event=event, sautil=sautil)
    # warm-up: resolve every lazy, process-global initialisation (dispatch registries, memoized attributes)
    # outside the simulation so that each run starts from the same global state
    for cls in (pool.QueuePool, pool.NullPool, pool.SingletonThreadPool):
        clock = L.VClock()
        led = L.Ledger(clock)
        wp = cls(L.make_creator(led), dialect=L.make_dialect(led))
        event.listen(wp, "checkout", lambda *a: None)
        c = wp.connect()
        c.invalidate(soft=True)
        c.close()
        c = wp.connect()
        c.invalidate()
        wp.dispose()
    gc.disable()
    gc.collect()
    gc.freeze()
    import sys
    sys.unraisablehook = lambda *a: None


def gen_sched(rng, horizon=2500):
    if rng.random() < 0.45:
        return {"mode": "seed", "seed": rng.getrandbits(32), "policy": "pct", "depth": rng.choice([1, 2, 3]),
                "horizon": rng.choice([300, 1000, horizon])}
    return {"mode": "seed", "seed": rng.getrandbits(32), "policy": "rw", "p": rng.choice([0.02, 0.05, 0.1, 0.3, 0.5])}


def gen_case(rng, tier):
    kind = rng.choice(["queue", "queue", "queue", "queue_lifo", "null", "singleton"])
    nw = rng.randint(2, 5 if tier == "thorough" else 4)
    cfg = {
        "pool": kind,
        "size": rng.choice([0, 1, 1, 2, 3]) if kind.startswith("queue") else 8,
        "over": rng.choice([-1, 0, 0, 1, 2]),
        "timeout": rng.choice([0.05, 1, 30]),
        "reset": rng.choice(["rollback", "rollback", None]),
        "checkout_listener": rng.random() < 0.3,
        # flaky checkout listener: [call ordinal, kind]; "err" = plain exception reaches the caller (who keeps the exception,
        # and with it the failed fairy, alive for a while - a delayed garbage-collected checkout), "disc" = DisconnectionError (internal retry)
        "listener_faults": [],
        "model": "F" if rng.random() < 0.4 else "G",
        "workers": nw,
    }
    if kind != "singleton" and rng.random() < 0.35:
        cfg["checkout_listener"] = True
        cfg["listener_faults"] = sorted([rng.randint(1, 8), rng.choice(["err", "err", "disc"])]
                                        for _ in range(rng.randint(1, 3)))
    opset = ["co", "co", "co", "use", "ci", "ci", "inv", "softinv", "drop", "gc"]
    if kind.startswith("queue") and rng.random() < 0.3:
        opset = opset + ["detach", "detach"]
    progs = []
    for w in range(nw):
        ops = []
        for _ in range(rng.randint(3, 12)):
            ops.append([rng.choice(opset), 0 if kind == "singleton" else rng.randrange(2)])
        progs.append(ops)
    return {"cfg": cfg, "progs": progs, "sched": gen_sched(rng), "switches": None}


def simplify(case):
    # fewer workers / shorter programs (schedule stays seeded unless already explicit)
    progs = case["progs"]
    for w in range(len(progs)):
        if len(progs) > 2:
            c = dict(case)
            c["progs"] = progs[:w] + progs[w + 1:]
            c["cfg"] = dict(case["cfg"], workers=len(c["progs"]))
            if case.get("switches") is not None:
                continue
            yield c
    for w in range(len(progs)):
        for i in range(len(progs[w])):
            if case.get("switches") is not None:
                break
            c = dict(case)
            c["progs"] = [list(p) for p in progs]
            del c["progs"][w][i]
            yield c


def run_case(case):
    cfg = case["cfg"]
    pool, exc, event = _m["pool"], _m["exc"], _m["event"]
    clock = L.VClock()
    led = L.Ledger(clock)
    sched = case["sched"]
    if case.get("switches") is not None:
        sched = {"mode": "explicit", "switches": case["switches"]}
    sim = TS.Sim(sched, TRACE, model=cfg["model"], max_steps=60000, clock=clock)
    patch = TS.Patch()
    patch.set(_m["squeue"], "threading", TS.SHIM)
    patch.set(_m["pimpl"], "threading", TS.SHIM)
    patch.set(_m["eattr"], "threading", TS.SHIM)
    TS.swap_real_locks(patch, _m["eattr"])
    patch.set(_m["pbase"], "time", L.TimeShim(clock))
    patch.set(_m["squeue"], "_time", clock.time)
    if cfg["model"] == "F":
        patch.set(_m["sautil"], "mini_gil", TS.SimRLock())
    viol = []
    counters = {}
    trace = []

    def bump(k, n=1):
        counters[k] = counters.get(k, 0) + n

    def V(oracle, sig, **detail):
        if not any(v["oracle"] == oracle for v in viol):
            viol.append({"oracle": oracle, "sig": sig, "detail": detail})

    d = L.make_dialect(led)
    creator0 = L.make_creator(led)
    created_by = {}

    def creator():
        c = creator0()
        created_by[c.id] = sim.cur.tid if sim.cur is not None else -1
        return c

    kw = dict(reset_on_return=cfg["reset"], dialect=d)
    k = cfg["pool"]
    limit = None
    if k.startswith("queue"):
        p = pool.QueuePool(creator, pool_size=cfg["size"], max_overflow=cfg["over"], timeout=cfg["timeout"],
                           use_lifo=(k == "queue_lifo"), **kw)
        if cfg["size"] > 0 and cfg["over"] >= 0:
            limit = cfg["size"] + cfg["over"]
    elif k == "null":
        p = pool.NullPool(creator, **kw)
    else:
        p = pool.SingletonThreadPool(creator, pool_size=cfg["size"], **kw)
    lf = {int(n): kd for n, kd in cfg.get("listener_faults", [])}
    lcalls = [0]

    def on_checkout(dbc, rec, fairy):
        sim.preempt_point(("listener", "checkout"))
        lcalls[0] += 1
        kd = lf.get(lcalls[0])
        if kd == "err":
            bump("fault:checkout_listener_error")
            raise InjectedListenerError("injected checkout listener failure")
        if kd == "disc":
            bump("fault:checkout_listener_disconnect")
            raise exc.DisconnectionError("injected")

    if cfg["checkout_listener"]:
        event.listen(p, "checkout", on_checkout)
    detached = []
    held_exc = {}     # worker -> exceptions the caller still holds (keeps the failed fairy alive through the traceback)

    holders = {}      # conn id -> (worker, slot)
    slots = {}        # (worker, slot) -> fairy
    abstract = set()
    is_queue = k.startswith("queue")
    queue_obj = p._pool if is_queue else None

    def monitor():
        # runs at every decision point; must not call sim primitives
        nopen = len(led.conns) - led.n_closed   # n_closed counts closed-or-detached, each connection once
        if limit is not None and nopen > limit:
            V("open_limit_exceeded", "open DBAPI connections %d > pool_size+max_overflow %d" % (nopen, limit), open=nopen)
        if is_queue:
            idle = len(queue_obj.queue)
            if cfg["size"] > 0 and idle > cfg["size"]:
                V("idle_limit_exceeded", "idle connections %d > pool_size %d" % (idle, cfg["size"]))
            if len(abstract) < 200:
                abstract.add((len(holders), idle, nopen, sum(1 for t in sim.threads if t.state == "blocked")))

    def on_idle():
        # virtual time is about to advance because nothing is runnable: nobody may sleep in Queue.get on a non-empty queue
        if is_queue and len(queue_obj.queue) > 0:
            for t in sim.threads:
                if t.state == "blocked" and t.waiting_on is queue_obj.not_empty:
                    V("lost_wakeup", "worker parked in Queue.get while the queue holds %d idle connections" % len(queue_obj.queue),
                      worker=t.name)
                    bump("probe:lost_wakeup_seen")

    sim.monitor = monitor
    sim.on_idle = on_idle
    led.n_closed = 0
    led.on_point = None

    def on_point(kind, conn):
        if kind == "close" and conn is not None and conn.close_called == 1 and not getattr(conn, "detached", False):
            led.n_closed += 1
        sim.preempt_point(("dbapi", kind))
    led.on_point = on_point

    def worker(w, ops):
        def run():
            for i, (op, s) in enumerate(ops):
                key = (w, s)
                out = "ok"
                try:
                    if op == "co":
                        if key in slots:
                            out = "skip"
                        else:
                            t0 = clock.peek()
                            try:
                                f = p.connect()
                            except InjectedListenerError as e:
                                held_exc.setdefault(w, []).append(e)
                                out = "raised-injected"
                                continue
                            except exc.TimeoutError:
                                t1 = clock.peek()
                                out = "timeout"
                                bump("probe:checkout_timeout")
                                if t1 - t0 < cfg["timeout"] - 1e-4:
                                    V("early_timeout", "TimeoutError after %.4fs < pool timeout %.2fs" % (t1 - t0, cfg["timeout"]))
                                continue
                            dc = f.dbapi_connection
                            if k == "singleton":
                                slots[key] = f
                                if created_by.get(dc.id) != w:
                                    V("singleton_cross_thread", "SingletonThreadPool handed thread %d a connection created by thread %s"
                                      % (w, created_by.get(dc.id)))
                            else:
                                if dc.id in holders:
                                    V("double_checkout", "connection handed to two live checkouts pool=%s" % k,
                                      conn=dc.id, first=list(holders[dc.id]), second=[w, s])
                                holders[dc.id] = key
                                slots[key] = f
                            del f
                    elif op == "use":
                        if key in slots:
                            cur = slots[key].cursor()
                            cur.execute("select 1")
                            cur.close()
                        else:
                            sim.preempt_point(("use", w))
                    elif op == "gc":
                        # the cyclic collector runs now, in this thread (gc is disabled otherwise): failed-checkout fairies kept
                        # alive by exception/traceback cycles and dropped handles are finalised at this instant
                        held_exc.pop(w, None)
                        gc.collect()
                        bump("fault:gc_collect")
                    elif op == "detach":
                        if key not in slots or k == "singleton":
                            out = "skip"
                        else:
                            f = slots.pop(key)        # no longer a pool checkout once detached
                            dc = f.dbapi_connection
                            if dc is not None and holders.get(dc.id) == key:
                                del holders[dc.id]
                            if dc is not None and not getattr(dc, "detached", False):
                                dc.detached = True
                                if not dc.close_called:
                                    led.n_closed += 1
                                bump("probe:detach")
                            f.detach()
                            detached.append(f)        # the application keeps using it; collected at the end of the run
                            del f
                    elif op in ("ci", "inv", "drop"):
                        held_exc.pop(w, None)     # the caller lets go of earlier exceptions -> failed fairies are collected now
                        if key not in slots:
                            out = "skip"
                        else:
                            f = slots.pop(key)
                            dc = f.dbapi_connection
                            if dc is not None and holders.get(dc.id) == key:
                                del holders[dc.id]
                            if op == "ci":
                                f.close()
                            elif op == "inv":
                                f.invalidate()
                            del f
                    elif op == "softinv":
                        if key in slots:
                            slots[key].invalidate(soft=True)
                        else:
                            out = "skip"
                except TS.SimAbort:
                    raise
                except Exception as e:   # any other exception out of the pool with faults off is itself a finding
                    out = "raised:" + type(e).__name__
                    # not one of C25's guarantees: tabulated as an observation, never a verdict
                    bump("probe:unexpected_exception_" + type(e).__name__)
                finally:
                    trace.append([w, i, op, s, out])
            held_exc.pop(w, None)
            return True
        return run

    for w, ops in enumerate(case["progs"]):
        sim.spawn(worker(w, ops), "w%d" % w)
    try:
        sim.run()
        if sim.deadlock is not None:
            V("deadlock", "all workers blocked with no timer pending (faults off)", threads=sim.deadlock)
        elif sim.aborting:
            bump("probe:step_cap_abort")
        for t in sim.threads:
            if t.exc is not None:
                V("worker_crashed", "worker %s died with %r" % (t.name, t.exc))
        # ---- quiescence: accounting equals live checkouts
        if not sim.aborting and is_queue:
            live = len(slots)
            if p.checkedout() != live:
                V("checkedout_mismatch", "checkedout()=%d but %d live checkouts at quiescence" % (p.checkedout(), live),
                  status=p.status())
            idle_open = sum(1 for r in list(queue_obj.queue))
            if p.checkedin() != idle_open:
                V("checkedin_mismatch", "checkedin()=%d but %d idle records" % (p.checkedin(), idle_open))
            for key in sorted(slots):
                f = slots.pop(key)
                f.close()
                del f
            holders.clear()
            if p.checkedout() != 0:
                V("checkedout_mismatch", "checkedout()=%d after every holder released" % p.checkedout(), status=p.status())
            nopen = len(led.conns) - led.n_closed
            if cfg["size"] > 0 and p.checkedin() > cfg["size"]:
                V("idle_limit_exceeded", "idle connections %d > pool_size %d at the end" % (p.checkedin(), cfg["size"]))
    finally:
        patch.restore()
        del detached[:]
        held_exc.clear()
        slots.clear()
        holders.clear()
        gc.collect()

    bump("steps", sim.steps)
    bump("context_switches", sim.context_switches)
    bump("time_advances", sim.time_advances)
    bump("vtime_us", int((clock.peek() - 1000.0) * 1e6))
    bump("model_" + cfg["model"])
    bump("policy_" + case["sched"].get("policy", "explicit") if case.get("switches") is None else "policy_explicit")
    bump("dbapi_calls", len(led.calls))
    trace.sort()
    digest = digest_of([cfg, trace, sim.site_log])
    res = {
        "viol": viol,
        "digest": digest,
        "nontrivial": sim.context_switches > len(sim.threads) and len({t[0] for t in trace if t[4] == "ok"}) >= 2,
        "counters": counters,
        "sets": {"interleavings": [sim.interleaving_digest()], "abstract_states": sorted(abstract)},
        "trace": trace[:60],
        "switch_log": sim.switch_log,
    }
    return res


def derive_cases(case, res):
    return ()


def explicit_of(case, res):
    c = dict(case)
    c["switches"] = res["switch_log"]
    return c
