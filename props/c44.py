"""C44 — version counters prevent lost updates.

Interleaved-sessions simulation: 2-3 real Sessions, each with its own pooled connection to one tmpfs SQLite file (legacy pysqlite
transaction mode, timeout=0), work on 1-3 shared rows of a class mapped with version_id_col.  Each session has a short program
(load, set, delete, flush, commit, rollback, refresh, expire_all); the seeded scheduler interleaves the sessions at operation
granularity - the shared resource is the database, so the order of their database calls is the interleaving that matters.
For small programs every interleaving is enumerated (derived cases), larger ones are sampled.
Ground truth comes from probes: the session's own raw connection (what its transaction sees) and an observer connection
(what is committed).  A real SQLite lock conflict is a legal failed operation.
"""
import gc
import itertools
import os
import random
import shutil
import sqlite3
import tempfile
import warnings

from simfw.core import digest_of

ID = "C44"
LEVEL = "exploration"
ENGINE = "ormsim"
TECHNIQUE = ("deterministic simulation: seeded and enumerated operation-level interleavings of 2-3 real Sessions on one SQLite file; per-flush "
             "oracle from raw-connection probes (loaded version vs current version), serial register model for committed state")
LEVEL_TEXT = ("for seeded session programs on shared versioned rows, all interleavings of small programs are enumerated and larger ones sampled; "
              "before every flush the loaded version of each written row is compared with the version the transaction can see, which decides "
              "whether StaleDataError is required; after it, database and in-memory versions must have advanced by exactly one step.")
LEVEL_NOTE = ("SQLite is single-writer: write/write overlaps surface as 'database is locked' (a legal failed operation) rather than as blocking or "
              "MVCC conflicts; client-side integer version generator and a custom generator (+10); server-side versioning not exercised")
TIERS = {
    "quick": {"runs": 500, "secs": 30},
    "thorough": {"runs": 30000, "secs": 420, "hashseeds": [0, 1]},
}
SHRINK = ["schedule"]
MIN_BUDGET = 100
RULE = ("base = session programs + one seeded interleaving; derived = every other interleaving (<=250) or sampled ones; distinct = digest of "
        "programs, schedule and outcomes; non-trivial = >=2 sessions wrote the same row in overlapping transactions")
COMPONENTS_REAL = ["sqlalchemy.orm Session / unit of work / persistence._emit_update_statements/_emit_delete_statements (versioning)",
                   "mapper version_id_col / version_id_generator", "pysqlite dialect + QueuePool", "stdlib sqlite3 on tmpfs"]
COMPONENTS_STUB = ["operation-level scheduler over sessions", "serial register model", "raw-connection and observer probes"]
ASSUMPTIONS = ["pure-Python implementations of the _cy modules ran"]

_m = {}
_dir = [None]



def _workdir():
    """one directory per worker process: SQLite creates and deletes journal files all the time, and sixteen workers doing that in one
    tmpfs directory serialise on it"""
    d = os.path.join(_dir[0], "p%d" % os.getpid())
    os.makedirs(d, exist_ok=True)
    return d

def setup():
    from sqlalchemy import create_engine, Column, Integer, exc, event
    from sqlalchemy.orm import Session, declarative_base
    from sqlalchemy.orm import exc as orm_exc
    from sqlalchemy.pool import QueuePool
    Base = declarative_base()

    class V(Base):
        __tablename__ = "v"
        id = Column(Integer, primary_key=True)
        val = Column(Integer)
        version_id = Column(Integer, nullable=False)
        __mapper_args__ = {"version_id_col": version_id}

    Base2 = declarative_base()

    class V10(Base2):
        __tablename__ = "v"
        id = Column(Integer, primary_key=True)
        val = Column(Integer)
        version_id = Column(Integer, nullable=False)
        __mapper_args__ = {"version_id_col": version_id, "version_id_generator": lambda v: (v or 0) + 10}

    from sqlalchemy import literal_column

    def server_version():
        # the database generates the counter ("1" on INSERT, "version_id + 1" on UPDATE); the client never computes it
        return Column(Integer, nullable=False, server_default="1", onupdate=literal_column("version_id + 1"))

    Base3 = declarative_base()

    class VS(Base3):
        __tablename__ = "v"
        id = Column(Integer, primary_key=True)
        val = Column(Integer)
        version_id = server_version()
        __mapper_args__ = {"version_id_col": version_id, "version_id_generator": False}

    Base4 = declarative_base()

    class VSN(Base4):
        """server-side counter on a table that may not use RETURNING: the unit of work has to SELECT the new version after each UPDATE"""
        __tablename__ = "v"
        __table_args__ = {"implicit_returning": False}
        id = Column(Integer, primary_key=True)
        val = Column(Integer)
        version_id = server_version()
        __mapper_args__ = {"version_id_col": version_id, "version_id_generator": False}

    _m.update(VS=VS, VSN=VSN)
    _m.update(create_engine=create_engine, exc=exc, Session=Session, V=V, V10=V10, orm_exc=orm_exc, QueuePool=QueuePool, event=event)
    _dir[0] = tempfile.mkdtemp(prefix="verif-c44-", dir="/dev/shm" if os.path.isdir("/dev/shm") else None)
    import atexit
    atexit.register(lambda: shutil.rmtree(_dir[0], ignore_errors=True))
    gc.disable()
    gc.collect()
    gc.freeze()


def gen_case(rng, tier):
    ns = rng.choice([2, 2, 3])
    nrows = rng.choice([1, 2, 2, 3])
    progs = []
    val = [100]
    for s in range(ns):
        ops = []
        if rng.random() < 0.6:
            # the classic read-modify-write on (mostly) the same rows, possibly several rows in one flush
            rows = sorted(set(rng.randint(1, nrows) for _ in range(rng.randint(1, 3))))
            for r in rows:
                ops.append(["load", r, 0])
            for r in rows:
                val[0] += 1
                ops.append([rng.choice(["set", "set", "set", "del"]), r, val[0]])
            if rng.random() < 0.5:
                ops.append(["flush", 0, 0])
            ops.append(["commit", 0, 0])
            if rng.random() < 0.5:
                r = rng.choice(rows)
                val[0] += 1
                ops.extend([["set", r, val[0]], ["commit", 0, 0]])
            progs.append(ops)
            continue
        for _ in range(rng.randint(3, 7)):
            op = rng.choice(["load", "load", "set", "set", "set", "del", "flush", "commit", "commit", "rollback", "refresh", "expire_all"])
            r = rng.randint(1, nrows)
            val[0] += 1
            ops.append([op, r, val[0]])
        if ops[-1][0] not in ("commit", "rollback"):
            ops.append(["commit", 0, 0])
        progs.append(ops)
    sched = []
    for s, p in enumerate(progs):
        sched.extend([s] * len(p))
    rng.shuffle(sched)
    return {"progs": progs, "schedule": sched, "rows": nrows, "expire_on_commit": [rng.random() < 0.5 for _ in range(ns)],
            "gen": rng.choice(["default", "default", "plus10", "server", "server_noret"])}


def derive_cases(case, res):
    counts = [len(p) for p in case["progs"]]
    total = sum(counts)
    # number of distinct interleavings = multinomial; enumerate when small
    n = 1
    rem = total
    for c in counts:
        n *= _comb(rem, c)
        rem -= c
    rng = random.Random(case["seed"] ^ 0xC44)
    base = []
    for s, c in enumerate(counts):
        base.extend([s] * c)
    seen = {tuple(case["schedule"])}
    if n <= 250:
        for perm in set(itertools.permutations(base)):
            if perm not in seen:
                seen.add(perm)
                c2 = dict(case)
                c2["schedule"] = list(perm)
                yield c2
    else:
        for _ in range(40):
            b = list(base)
            rng.shuffle(b)
            if tuple(b) not in seen:
                seen.add(tuple(b))
                c2 = dict(case)
                c2["schedule"] = b
                yield c2


def _comb(n, k):
    import math
    return math.comb(n, k)


def run_case(case):
    create_engine, exc, Session, orm_exc = _m["create_engine"], _m["exc"], _m["Session"], _m["orm_exc"]
    Cls = {"default": _m["V"], "plus10": _m["V10"], "server": _m["VS"], "server_noret": _m["VSN"]}[case["gen"]]
    step = 10 if case["gen"] == "plus10" else 1
    path = os.path.join(_workdir(), "v.db")
    for suffix in ("", "-journal"):
        try:
            os.unlink(path + suffix)
        except OSError:
            pass
    obs = sqlite3.connect(path, timeout=0, isolation_level=None)
    obs.execute("create table v (id integer primary key, val integer, version_id integer not null)")
    for r in range(1, case["rows"] + 1):
        obs.execute("insert into v values (?, ?, ?)", (r, r, 1 + 3 * (r - 1)))     # rows start at different versions
    viol = []
    counters = {}
    trace = []

    def bump(k, n=1):
        counters[k] = counters.get(k, 0) + n

    def V(oracle, sig, **detail):
        if not viol:
            viol.append({"oracle": oracle, "sig": sig, "detail": detail})

    eng = create_engine("sqlite:///" + path, connect_args={"timeout": 0}, poolclass=_m["QueuePool"], pool_size=4, max_overflow=0)
    ns = len(case["progs"])
    sessions = [Session(eng, expire_on_commit=case["expire_on_commit"][s], autoflush=False) for s in range(ns)]
    objs = [dict() for _ in range(ns)]          # session -> row id -> loaded object
    written = [dict() for _ in range(ns)]       # session -> row id -> ("set", val) | ("del",) pending since last flush
    flushed = [dict() for _ in range(ns)]       # session -> row id -> (val, ver) | None   flushed, not yet committed
    committed = {r: (r, 1 + 3 * (r - 1)) for r in range(1, case["rows"] + 1)}     # serial register model: row -> (val, version) | None
    overlap = [False]
    pcs = [0] * ns

    def committed_rows():
        return {r[0]: (r[1], r[2]) for r in obs.execute("select id, val, version_id from v")}

    def session_view(s, rid):
        """what session s's transaction can see for that row, through its own raw DBAPI connection"""
        raw = sessions[s].connection().connection.dbapi_connection
        row = raw.execute("select val, version_id from v where id=?", (rid,)).fetchone()
        return row

    try:
        with warnings.catch_warnings():
            warnings.simplefilter("ignore")
            for step_i, s in enumerate(case["schedule"]):
                if pcs[s] >= len(case["progs"][s]):
                    continue
                op, rid, val = case["progs"][s][pcs[s]]
                pcs[s] += 1
                sess = sessions[s]
                out = "ok"
                try:
                    if op == "load":
                        o = sess.get(Cls, rid)
                        if o is not None:
                            objs[s][rid] = o
                        else:
                            objs[s].pop(rid, None)
                            out = "absent"
                    elif op == "set":
                        o = objs[s].get(rid)
                        if o is None or o in sess.deleted or rid in [k for k, v2 in written[s].items() if v2[0] == "del"]:
                            out = "skip"
                        else:
                            o.val = val
                            written[s][rid] = ("set", val)
                    elif op == "del":
                        o = objs[s].get(rid)
                        if o is None or o in sess.deleted:
                            out = "skip"
                        else:
                            sess.delete(o)
                            written[s][rid] = ("del",)
                    elif op == "refresh":
                        o = objs[s].get(rid)
                        if o is None or rid in written[s] or o in sess.deleted:
                            out = "skip"
                        else:
                            try:
                                sess.refresh(o)
                            except exc.InvalidRequestError:
                                out = "row-gone"            # another session deleted the row: documented refresh failure
                                sess.expunge(o)
                                objs[s].pop(rid, None)
                    elif op == "expire_all":
                        if written[s]:
                            out = "skip"
                        else:
                            sess.expire_all()
                    elif op in ("flush", "commit"):
                        # ---- expectation from probes, before the flush
                        expect_stale = False
                        plan = {}
                        for r2, w in sorted(written[s].items()):
                            o = objs[s][r2]
                            loaded = o.__dict__.get("version_id")
                            view = session_view(s, r2)
                            cur = view[1] if view is not None else None
                            if loaded is None:
                                # expired: the unit of work reloads the row right before writing, i.e. it sees the current version
                                loaded = cur
                            plan[r2] = (w, loaded, cur)
                            if cur is None or cur != loaded:
                                expect_stale = True
                            if any(r2 in flushed[t] or r2 in written[t] for t in range(ns) if t != s):
                                overlap[0] = True
                        before_obs = committed_rows()
                        try:
                            if op == "flush":
                                sess.flush()
                            else:
                                sess.commit()
                        except orm_exc.StaleDataError:
                            out = "StaleDataError"
                            bump("probe:stale_data_error")
                            if not expect_stale:
                                V("spurious_stale_error", "flush raised StaleDataError although every written row's loaded version was current: %s"
                                  % plan, step=step_i)
                            sess.rollback()
                            if committed_rows() != before_obs:
                                V("stale_flush_changed_data", "a flush that failed with StaleDataError changed committed data", step=step_i)
                            written[s].clear()
                            flushed[s].clear()
                            objs[s].clear()
                        except exc.OperationalError as e:
                            if "locked" not in str(e):
                                raise
                            out = "locked"
                            bump("fault:lock_conflict")
                            sess.rollback()
                            written[s].clear()
                            flushed[s].clear()
                            objs[s].clear()
                        else:
                            if expect_stale:
                                V("lost_update", "a flush succeeded although a written row's loaded version was no longer current "
                                  "(row -> (write, loaded version, current version)): %s" % plan, step=step_i)
                            # every successful update advanced the version by exactly one generator step, in the database and in memory
                            for r2, (w, loaded, cur) in plan.items():
                                if op == "flush":
                                    view = session_view(s, r2)
                                else:
                                    vv = committed_rows().get(r2)
                                    view = vv
                                if w[0] == "del":
                                    if view is not None:
                                        V("delete_not_applied", "row %d still present after a successful delete flush" % r2, step=step_i)
                                    flushed[s][r2] = None
                                    objs[s].pop(r2, None)       # the object is in the 'deleted' state now: no further use
                                else:
                                    if view is None or view[1] != loaded + step or view[0] != w[1]:
                                        V("version_not_incremented", "row %d after a successful update: database has %s, expected value %s version %s"
                                          % (r2, view, w[1], loaded + step), step=step_i)
                                    mem = objs[s][r2].__dict__.get("version_id")
                                    if mem is None and not (op == "commit" and case["expire_on_commit"][s]):
                                        # client-side counters are set in memory, server-side ones are fetched right after the UPDATE
                                        # (documented); a version that is simply missing would be re-read from the database later -
                                        # and then no longer identifies the state this session's copy stems from
                                        V("in_memory_version_missing", "row %d: the object carries no version_id after a successful update "
                                          "flush (generator %s, expected %s)" % (r2, case["gen"], loaded + step), step=step_i)
                                    if mem is not None and mem != loaded + step:
                                        V("in_memory_version_wrong", "row %d: in-memory version_id %s after flush, database/expected %s"
                                          % (r2, mem, loaded + step), step=step_i)
                                    flushed[s][r2] = (w[1], loaded + step)
                            written[s].clear()
                            if op == "commit":
                                for r2, st in flushed[s].items():
                                    committed[r2] = st
                                flushed[s].clear()
                                if case["expire_on_commit"][s]:
                                    pass
                                bump("probe:successful_commit")
                    elif op == "rollback":
                        sess.rollback()
                        written[s].clear()
                        flushed[s].clear()
                        objs[s].clear()
                except exc.OperationalError as e:
                    if "locked" in str(e):
                        out = "locked:" + op
                        bump("fault:lock_conflict")
                        sess.rollback()
                        written[s].clear()
                        flushed[s].clear()
                        objs[s].clear()
                    else:
                        raise
                except orm_exc.ObjectDeletedError:
                    out = "ObjectDeletedError"
                    sess.rollback()
                    written[s].clear()
                    flushed[s].clear()
                    objs[s].clear()
                trace.append([step_i, s, op, rid, out])
                if op in ("commit",) and not viol:
                    got = committed_rows()
                    want = {r: st for r, st in committed.items() if st is not None}
                    if got != want:
                        V("committed_state_diverges", "after commit by session %d the table is %s, serial model of successful commits says %s"
                          % (s, got, want), step=step_i)
                if viol:
                    break
    finally:
        for sess in sessions:
            try:
                sess.close()
            except Exception:
                pass
        eng.dispose()
        obs.close()
        gc.collect()
    bump("ops", len(trace))
    bump("gen_" + case["gen"])
    if overlap[0]:
        bump("probe:overlapping_writers")
    return {"viol": viol, "digest": digest_of([case["progs"], case["schedule"], case["expire_on_commit"], trace]), "nontrivial": overlap[0],
            "counters": counters, "sets": {"interleavings": [digest_of(case["schedule"])]}, "trace": trace}
