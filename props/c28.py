"""C28 — event listeners fire exactly as registered; once-only / first-connect listeners run at most once
even when dispatched concurrently.

Two simulations share this check (case["kind"]):
  hist  — sequential history of listen/remove/contains/new-subclass/new-instance/dispatch on a fresh Events
          family, compared op by op with a reference model of registrations (DESIGN §6 C28).
  sched — threadsim: 2-4 threads dispatch exec_once / exec_once_unless_exception / _exec_w_sync_on_first_run on one
          collection, or check out concurrently from a brand-new real Pool that has first_connect, engine-style
          first-connect (connect + _once_unless_exception) and once=True listeners.
"""
import gc

from simfw import ledger as L
from simfw import threadsim as TS
from simfw.core import digest_of

ID = "C28"
LEVEL = "exploration"
ENGINE = "threadsim"
TECHNIQUE = ("deterministic simulation: (a) seeded listen/remove/subclass/dispatch histories against a registration reference model; "
             "(b) seeded thread schedules (models G/F, random-walk + PCT) over exec_once / first-connect dispatch with overlap and "
             "run-count oracles")
LEVEL_TEXT = ("seeded search over registration histories (model-checked op by op against an executable reference model) and over thread "
              "interleavings of once-only / first-connect dispatch on real event collections and a real Pool; sampled, not exhaustive")
LEVEL_NOTE = ("each listener function is registered on at most one target at a time (the same function on a base class and a subclass is "
              "not generated); retval/asyncio options not generated; pre-emption only at traced line boundaries of event/attr.py, "
              "event/base.py, event/registry.py, util/langhelpers.py, pool/base.py, pool/impl.py, util/queue.py")
TIERS = {
    "quick": {"runs": 16000, "secs": 35},
    "thorough": {"runs": 400000, "secs": 480, "hashseeds": [0, 1]},
}
SHRINK = ["prog", "switches"]
MIN_BUDGET = 150
RULE = ("hist: seeded op list on a fresh Events family (classes Base<-A<-B, Base<-C, later-created subclasses, instances); "
        "sched: seeded scenario + thread count + schedule.  distinct = digest of (ops, outcomes) resp. (scenario, interleaving sites); "
        "non-trivial = >=1 dispatch that called >=1 listener (hist) / >=1 context switch inside the guarded region's files (sched)")
COMPONENTS_REAL = ["sqlalchemy.event (api, attr, base, registry)", "sqlalchemy.util.langhelpers.only_once", "sqlalchemy.pool (sched scenario 'pool')"]
COMPONENTS_STUB = ["thread scheduler + sim locks (sched)", "ledger DBAPI (sched scenario 'pool')", "reference model of registrations (hist)"]
ASSUMPTIONS = ["dispatch is observed through instances (x.dispatch.ev(...)), as the library itself dispatches",
               "pure-Python implementations of the _cy modules ran"]

TRACE = ("event/attr.py", "event/base.py", "event/registry.py", "util/langhelpers.py", "pool/base.py", "pool/impl.py", "util/queue.py")
_m = {}


def setup():
    import sqlalchemy.event.attr as eattr
    import sqlalchemy.event.base as ebase
    import sqlalchemy.pool.base as pbase
    import sqlalchemy.pool.impl as pimpl
    import sqlalchemy.util.queue as squeue
    import sqlalchemy.util as sautil
    from sqlalchemy import event, exc, pool
    _m.update(eattr=eattr, ebase=ebase, event=event, exc=exc, pool=pool, pbase=pbase, pimpl=pimpl, squeue=squeue, sautil=sautil)
    # warm-up of lazily created process-global state
    for cls in (pool.QueuePool, pool.NullPool):
        clock = L.VClock()
        led = L.Ledger(clock)
        wp = cls(L.make_creator(led), dialect=L.make_dialect(led))
        event.listen(wp, "first_connect", lambda *a: None)
        event.listen(wp, "connect", lambda *a: None, once=True)
        wp.connect().close()
        wp.dispose()
    gc.disable()
    gc.collect()
    gc.freeze()
    import sys
    sys.unraisablehook = lambda *a: None


# ----------------------------------------------------------------------------- generation

def gen_case(rng, tier):
    if rng.random() < 0.55:
        return gen_hist(rng)
    return gen_sched(rng, tier)


def gen_hist(rng):
    # swarm: per-history op mix, target bias, size of the function pool, number of events
    w = {k: rng.choice([0, 1, 2, 4]) for k in ("remove", "relisten", "contains", "mkclass", "mkinst", "derive", "joindispatch")}
    w["listen"] = rng.choice([2, 4, 6])
    w["dispatch"] = rng.choice([2, 4, 6])
    ops = [k for k, n in w.items() for _ in range(n)]
    ibias = rng.choice([0.1, 0.5, 0.9])
    nf = rng.choice([2, 4, 16])
    nev = rng.choice([1, 2])
    pflag = rng.choice([0.1, 0.3, 0.6])
    oflag = rng.choice([0.0, 0.1, 0.3])
    n = rng.randint(5, 30)
    prog = [["mkinst", rng.randrange(64)]] if rng.random() < 0.7 else []

    def tgt():
        return ["i" if rng.random() < ibias else "c", rng.randrange(64)]
    for _ in range(n):
        k = rng.choice(ops)
        if k == "listen":
            prog.append(["listen", tgt(), rng.randrange(nev), rng.randrange(nf),
                         {"insert": rng.random() < 0.3, "propagate": rng.random() < pflag, "once": rng.random() < oflag,
                          "named": rng.random() < oflag}])
        elif k == "remove":
            prog.append(["remove", rng.randrange(64)])
        elif k == "relisten":
            prog.append(["relisten", rng.randrange(64), {"insert": rng.random() < 0.3, "propagate": rng.random() < pflag,
                                                         "once": rng.random() < oflag}])
        elif k == "contains":
            prog.append(["contains", tgt(), rng.randrange(nev), rng.randrange(nf)])
        elif k == "mkclass":
            prog.append(["mkclass", rng.randrange(64)])
        elif k == "mkinst":
            prog.append(["mkinst", rng.randrange(64)])
        elif k == "derive":
            prog.append(["derive", rng.randrange(64), rng.randrange(2)])
            if rng.random() < 0.6:
                prog.append(["dispatch", -1, rng.randrange(nev)])
        elif k == "joindispatch":
            prog.append(["joindispatch", rng.randrange(64), rng.randrange(64), rng.randrange(nev)])
        else:
            prog.append(["dispatch", -1 if rng.random() < 0.3 else rng.randrange(64), rng.randrange(nev)])
    return {"kind": "hist", "prog": prog, "switches": None}


def gen_sched(rng, tier):
    scen = rng.choice(["exec_once", "exec_once_unless_exception", "sync_first_run", "pool", "pool", "once_listener"])
    case = {
        "kind": "sched", "scenario": scen, "threads": rng.randint(2, 4), "calls": rng.randint(1, 2),
        "model": "F" if rng.random() < 0.4 else "G",
        "raise_first": rng.choice([0, 0, 1, 2]) if scen in ("exec_once_unless_exception", "sync_first_run", "pool") else 0,
        "touch_dispatch_first": rng.random() < 0.7,
        "pool": rng.choice(["queue", "null"]),
        "prog": None, "switches": None,
    }
    if rng.random() < 0.45:
        case["sched"] = {"mode": "seed", "seed": rng.getrandbits(32), "policy": "pct", "depth": rng.choice([1, 2, 3]),
                         "horizon": rng.choice([60, 200, 600])}
    else:
        case["sched"] = {"mode": "seed", "seed": rng.getrandbits(32), "policy": "rw", "p": rng.choice([0.05, 0.1, 0.3, 0.5])}
    return case


def explicit_of(case, res):
    if case["kind"] != "sched":
        return case
    c = dict(case)
    c["switches"] = res["switch_log"]
    return c


def run_case(case):
    if case["kind"] == "hist":
        return run_hist(case)
    return run_sched(case)


# ----------------------------------------------------------------------------- hist: reference model

class Reg:
    __slots__ = ("fid", "target", "ev", "once", "named", "fired", "removed", "insert", "propagate")

    def __init__(self, fid, target, ev, once, named, insert, propagate=False):
        self.fid, self.target, self.ev, self.once, self.named, self.insert = fid, target, ev, once, named, insert
        self.propagate = propagate
        self.fired = False
        self.removed = False


def run_hist(case):
    event = _m["event"]
    ebase = _m["ebase"]
    viol = []
    trace = []
    counters = {}

    def bump(k, n=1):
        counters[k] = counters.get(k, 0) + n

    def V(oracle, sig, **detail):
        if not viol:
            viol.append({"oracle": oracle, "sig": sig, "detail": detail})

    class TEvents(event.Events):
        def e0(self, x):
            pass

        def e1(self, x, y):
            pass

    class Base:
        dispatch = event.dispatcher(TEvents)

    EVS = ["e0", "e1"]
    ARGN = {"e0": ("x",), "e1": ("x", "y")}
    classes = [Base, type("A", (Base,), {})]
    classes.append(type("B", (classes[1],), {}))
    classes.append(type("C", (Base,), {}))
    parent = {0: [], 1: [0], 2: [1], 3: [0]}      # class idx -> indices of its direct bases
    order_free = set()                            # classes with more than one event-target base (and their descendants)
    insts = []                        # (obj, class idx)
    calls = []
    # model state
    cls_list = {ev: {i: [] for i in range(len(classes))} for ev in EVS}   # class idx -> [Reg] in call order
    inst_list = {ev: {} for ev in EVS}                                    # inst idx -> [Reg]
    live = {}                                                              # fid -> Reg
    removed = []
    fns = {}

    def fn_for(fid, named, ev):
        key = (fid, named)
        f = fns.get(key)
        if f is None:
            if named:
                def f(**kw):
                    calls.append((fid, tuple(sorted(kw.items()))))
            else:
                def f(*a):
                    calls.append((fid, a))
            fns[key] = f
        return f

    def subclasses_of(ci):
        out = [ci]
        for j, p in parent.items():
            if j != ci and is_sub(j, ci):
                out.append(j)
        return out

    def is_sub(j, ci):
        todo = [j]
        while todo:
            k = todo.pop()
            if k == ci:
                return True
            todo.extend(parent[k])
        return False

    def resolve_target(t):
        """["c"|"i", k] -> ('c', class idx) or ('i', inst idx); falls back to a class while no instance exists"""
        tk, k = t
        if tk == "i" and insts:
            return ("i", k % len(insts))
        return ("c", k % len(classes))

    try:
        for i, op in enumerate(case["prog"]):
            kind = op[0]
            out = None
            if kind == "relisten":
                # the same function registered again on the same target after a removal, with other options
                cand = [r for r in removed if r.fid not in live]
                if not cand:
                    out = "skip"
                    trace.append([i, kind, out])
                    continue
                old = cand[op[1] % len(cand)]
                op = ["listen", None, EVS.index(old.ev), old.fid, dict(op[2], named=old.named)]
                kind = "listen"
                forced_target = old.target
            else:
                forced_target = None
            if kind == "listen":
                _, t, evi, fid, o = op
                ev = EVS[evi]
                if fid in live:
                    out = "skip-live"
                else:
                    tk, ti = forced_target if forced_target is not None else resolve_target(t)
                    named = bool(o["named"])
                    f = fn_for(fid, named, ev)
                    reg = Reg(fid, (tk, ti), ev, bool(o["once"]), named, bool(o["insert"]), bool(o["propagate"]))
                    tgt = classes[ti] if tk == "c" else insts[ti][0]
                    event.listen(tgt, ev, f, insert=o["insert"], propagate=o["propagate"], once=o["once"], named=o["named"])
                    live[fid] = reg
                    if tk == "c":
                        for ci in subclasses_of(ti):
                            if o["insert"]:
                                cls_list[ev][ci].insert(0, reg)
                            else:
                                cls_list[ev][ci].append(reg)
                    else:
                        lst = inst_list[ev].setdefault(ti, [])
                        if o["insert"]:
                            lst.insert(0, reg)
                        else:
                            lst.append(reg)
                    out = "ok"
            elif kind == "remove":
                cand = sorted(live)
                if not cand:
                    out = "skip"
                else:
                    fid = cand[op[1] % len(cand)]
                    reg = live.pop(fid)
                    tk, ti = reg.target
                    tgt = classes[ti] if tk == "c" else insts[ti][0]
                    event.remove(tgt, reg.ev, fn_for(fid, reg.named, reg.ev))
                    reg.removed = True
                    removed.append(reg)
                    if tk == "c":
                        for ci in subclasses_of(ti):
                            cls_list[reg.ev][ci] = [r for r in cls_list[reg.ev][ci] if r is not reg]
                    else:
                        # derived targets (dispatch._update) share the registration: removal reaches them too
                        for k2 in list(inst_list[reg.ev]):
                            inst_list[reg.ev][k2] = [r for r in inst_list[reg.ev][k2] if r is not reg]
                    out = "ok"
            elif kind == "contains":
                _, t, evi, fid = op
                ev = EVS[evi]
                tk, ti = resolve_target(t)
                tgt = classes[ti] if tk == "c" else insts[ti][0]
                reg = live.get(fid)
                named = reg.named if reg is not None else False
                got = event.contains(tgt, ev, fn_for(fid, named, ev))
                want = reg is not None and reg.target == (tk, ti) and reg.ev == ev
                out = got
                if bool(got) != bool(want):
                    V("contains_mismatch", "event.contains() returned %s, model says %s" % (got, want), op=i)
            elif kind == "mkclass":
                if len(classes) >= 9:
                    out = "skip"
                else:
                    pi = op[1] % len(classes)
                    bases = [pi]
                    if (op[1] // 16) % 3 == 0:
                        # a second event-target base that is neither an ancestor nor a descendant of the first (consistent MRO)
                        cand = [j for j in range(1, len(classes)) if not is_sub(j, pi) and not is_sub(pi, j)]
                        if cand:
                            bases.append(cand[(op[1] // 4) % len(cand)])
                    try:
                        newcls = type("K%d" % len(classes), tuple(classes[b] for b in bases), {})
                    except TypeError:
                        # no consistent MRO for these two bases (their own bases disagree on an order): single inheritance instead
                        bases = bases[:1]
                        newcls = type("K%d" % len(classes), (classes[pi],), {})
                    classes.append(newcls)
                    ci = len(classes) - 1
                    parent[ci] = bases
                    if len(bases) > 1 or any(b in order_free for b in bases):
                        # the listeners of several bases are collected base by base (MRO) when the class is first seen: the relative
                        # order across bases is not "registration order" and is not documented - only membership is judged there
                        order_free.add(ci)
                        bump("probe:multi_base_class")
                    mro = [classes.index(c) for c in classes[ci].__mro__[1:] if c in classes]
                    for ev in EVS:
                        lst = []
                        for anc in mro:
                            for r in cls_list[ev][anc]:
                                if not any(r is x for x in lst):
                                    lst.append(r)
                        cls_list[ev][ci] = lst
                    out = "ok"
                    bump("probe:class_created_during_history")
            elif kind == "mkinst":
                if len(insts) >= 8:
                    out = "skip"
                else:
                    ci = op[1] % len(classes)
                    insts.append((classes[ci](), ci))
                    out = "ok"
            elif kind == "derive":
                # new target populated from an existing one, as Pool.recreate() / Column._copy() / mapper inheritance do
                if not insts or len(insts) >= 8:
                    out = "skip"
                else:
                    oi = op[1] % len(insts)
                    old, ci = insts[oi]
                    new = classes[ci]()
                    only_prop = bool(op[2])
                    new.dispatch._update(old.dispatch, only_propagate=only_prop)
                    insts.append((new, ci))
                    ni = len(insts) - 1
                    for ev in EVS:
                        src = inst_list[ev].get(oi, [])
                        cp = [r for r in src if (not only_prop) or r.propagate]
                        if cp:
                            inst_list[ev][ni] = cp
                    out = "ok"
                    bump("probe:derived_target")
            elif kind == "joindispatch":
                if len(insts) < 2:
                    out = "skip"
                else:
                    ai, bi = op[1] % len(insts), op[2] % len(insts)
                    ev = EVS[op[3]]
                    args = (i,) if ev == "e0" else (i, -i)
                    jd = insts[ai][0].dispatch._join(insts[bi][0].dispatch)
                    del calls[:]
                    getattr(jd, ev)(*args)
                    got = list(calls)
                    want = []
                    for reg in (cls_list[ev][insts[ai][1]] + inst_list[ev].get(ai, [])
                                + cls_list[ev][insts[bi][1]] + inst_list[ev].get(bi, [])):
                        if reg.once:
                            if reg.fired:
                                continue
                            reg.fired = True
                        if reg.named:
                            want.append((reg.fid, tuple(sorted(zip(ARGN[ev], args)))))
                        else:
                            want.append((reg.fid, args))
                    out = [g[0] for g in got]
                    bump("probe:joined_dispatch")
                    if got != want and not ((insts[ai][1] in order_free or insts[bi][1] in order_free) and sorted(got) == sorted(want)):
                        V("dispatch_wrong_listeners", "joined dispatch called listeners %s, registered (model) %s"
                          % ([g[0] for g in got], [w[0] for w in want]), op=i)
            elif kind == "dispatch":
                if not insts:
                    ci = op[1] % len(classes)
                    insts.append((classes[ci](), ci))
                ii = (len(insts) - 1) if op[1] < 0 else op[1] % len(insts)
                obj, ci = insts[ii]
                ev = EVS[op[2]]
                args = (i,) if ev == "e0" else (i, -i)
                del calls[:]
                getattr(obj.dispatch, ev)(*args)
                got = list(calls)
                want = []
                for reg in cls_list[ev][ci] + inst_list[ev].get(ii, []):
                    if reg.once:
                        if reg.fired:
                            continue
                        reg.fired = True
                    if reg.named:
                        want.append((reg.fid, tuple(sorted(zip(ARGN[ev], args)))))
                    else:
                        want.append((reg.fid, args))
                out = [g[0] for g in got]
                if got:
                    bump("probe:dispatch_called_listeners")
                if len(want) >= 3:
                    bump("probe:dispatch_3plus_listeners")
                if got != want:
                    gf, wf = [g[0] for g in got], [w[0] for w in want]
                    if sorted(gf) != sorted(wf):
                        V("dispatch_wrong_listeners", "dispatch called listeners %s, registered (model) %s" % (gf, wf), op=i)
                    elif gf != wf:
                        if ci not in order_free:
                            V("dispatch_wrong_order", "dispatch order %s, registration order (model) %s" % (gf, wf), op=i)
                    elif sorted(got) != sorted(want):
                        V("dispatch_wrong_arguments", "listener arguments %s, expected %s" % (got, want), op=i)
            trace.append([i, kind, out])
    finally:
        try:
            ebase._remove_dispatcher(TEvents)
        except Exception:
            pass
    bump("hist_runs")
    return {"viol": viol, "digest": digest_of([case["prog"], trace]),
            "nontrivial": counters.get("probe:dispatch_called_listeners", 0) > 0,
            "counters": counters, "sets": {"abstract_states": [[len(classes), len(insts), len(live)]]}, "trace": trace}


# ----------------------------------------------------------------------------- sched

def run_sched(case):
    event, exc, pool = _m["event"], _m["exc"], _m["pool"]
    clock = L.VClock()
    sched = case["sched"]
    if case.get("switches") is not None:
        sched = {"mode": "explicit", "switches": case["switches"]}
    sim = TS.Sim(sched, TRACE, model=case["model"], max_steps=40000, clock=clock)
    patch = TS.Patch()
    patch.set(_m["eattr"], "threading", TS.SHIM)
    TS.swap_real_locks(patch, _m["eattr"])
    patch.set(_m["squeue"], "threading", TS.SHIM)
    patch.set(_m["pimpl"], "threading", TS.SHIM)
    patch.set(_m["pbase"], "time", L.TimeShim(clock))
    patch.set(_m["squeue"], "_time", clock.time)
    if case["model"] == "F":
        patch.set(_m["sautil"], "mini_gil", TS.SimRLock())
    viol = []
    counters = {}
    trace = []

    def bump(k, n=1):
        counters[k] = counters.get(k, 0) + n

    def V(oracle, sig, **detail):
        if not any(v["oracle"] == oracle for v in viol):
            viol.append({"oracle": oracle, "sig": sig, "detail": detail})

    class Guard:
        """a listener body that must run at most once (successfully) and never concurrently with itself"""

        def __init__(self, name, raise_first=0):
            self.name = name
            self.inside = 0
            self.entered = 0
            self.completed = 0
            self.raise_first = raise_first

        def __call__(self, *a, **kw):
            self.entered += 1
            n = self.entered
            if self.inside and not (self.name == "sync_first_run" and self.completed > 0):
                V("guarded_listener_overlap", "%s listener entered while another thread was still inside it (scenario=%s model=%s)"
                  % (self.name, case["scenario"], case["model"]))
            self.inside += 1
            try:
                sim.preempt_point(("listener", self.name))
                if n <= self.raise_first:
                    raise RuntimeError("injected listener failure #%d" % n)
                sim.preempt_point(("listener2", self.name))
                self.completed += 1
            finally:
                self.inside -= 1

    scen = case["scenario"]
    guards = []
    workers = []
    cleanup = []
    errors = []

    def guarded_call(fn):
        try:
            fn()
        except RuntimeError as e:
            if "injected listener failure" not in str(e):
                errors.append(repr(e))
        except TS.SimAbort:
            raise
        except Exception as e:
            errors.append(repr(e))

    if scen in ("exec_once", "exec_once_unless_exception", "sync_first_run", "once_listener"):
        class TEvents(event.Events):
            def ev(self, x):
                pass

        class Target:
            dispatch = event.dispatcher(TEvents)
        cleanup.append(lambda: _m["ebase"]._remove_dispatcher(TEvents))
        t = Target()
        g = Guard(scen, case["raise_first"])
        guards.append(g)
        if scen == "once_listener":
            event.listen(t, "ev", g, once=True)
        else:
            event.listen(t, "ev", g)
        every = Guard("plain")          # an ordinary listener next to it: runs on every successful dispatch
        every.inside = -10 ** 6          # (overlap allowed)

        def work():
            for _ in range(case["calls"]):
                coll = t.dispatch.ev
                if scen == "exec_once":
                    guarded_call(lambda: coll.for_modify(t.dispatch).exec_once(1))
                elif scen == "exec_once_unless_exception":
                    guarded_call(lambda: coll.for_modify(t.dispatch).exec_once_unless_exception(1))
                elif scen == "sync_first_run":
                    guarded_call(lambda: coll.for_modify(t.dispatch)._exec_w_sync_on_first_run(1))
                else:
                    guarded_call(lambda: t.dispatch.ev(1))
            return True
        for _ in range(case["threads"]):
            workers.append(work)
    else:  # real pool: first connections created concurrently
        led = L.Ledger(clock)
        led.on_point = lambda kind, conn: sim.preempt_point(("dbapi", kind))
        d = L.make_dialect(led)
        creator = L.make_creator(led)
        if case["pool"] == "queue":
            p = pool.QueuePool(creator, pool_size=case["threads"], max_overflow=2, timeout=5, dialect=d)
        else:
            p = pool.NullPool(creator, dialect=d)
        g_fc = Guard("first_connect", case["raise_first"])
        g_engine = Guard("engine_first_connect")
        g_once = Guard("once_connect")
        guards.extend([g_fc, g_engine, g_once])
        if case["touch_dispatch_first"]:
            event.listen(p, "first_connect", g_fc)
            event.listen(p, "connect", g_engine, _once_unless_exception=True)   # how Engine registers dialect initialisation
            event.listen(p, "connect", g_once, once=True)
        else:
            # class-level registration on a private subclass: the pool instance's dispatch object is first touched by the workers
            P2 = type("P2", (type(p),), {})
            if case["pool"] == "queue":
                p = P2(creator, pool_size=case["threads"], max_overflow=2, timeout=5, dialect=d)
            else:
                p = P2(creator, dialect=d)
            event.listen(P2, "first_connect", g_fc)
            event.listen(P2, "connect", g_engine, _once_unless_exception=True)
            event.listen(P2, "connect", g_once, once=True)
            cleanup.append(lambda: (event.remove(P2, "first_connect", g_fc), event.remove(P2, "connect", g_engine),
                                    event.remove(P2, "connect", g_once)))

        def work():
            for _ in range(case["calls"]):
                def co():
                    c = p.connect()
                    sim.preempt_point(("hold", 0))
                    c.close()
                guarded_call(co)
            return True
        for _ in range(case["threads"]):
            workers.append(work)
        cleanup.append(p.dispose)

    for w in workers:
        sim.spawn(w)
    try:
        sim.run()
        if sim.deadlock is not None:
            V("deadlock", "threads deadlocked in event dispatch (scenario=%s)" % scen, threads=sim.deadlock)
        for th in sim.threads:
            if th.exc is not None:
                errors.append(repr(th.exc))
        if not sim.aborting:
            for g in guards:
                if g.name == "sync_first_run":
                    # listeners run on every dispatch; the guarantee is no overlap until the first success (checked in Guard)
                    continue
                if g.completed > 1:
                    V("once_listener_ran_twice", "%s listener completed %d times (scenario=%s model=%s)"
                      % (g.name, g.completed, scen, case["model"]), entered=g.entered)
                if g.raise_first == 0 and g.entered > 1:
                    V("once_listener_ran_twice", "%s listener entered %d times (scenario=%s model=%s)"
                      % (g.name, g.entered, scen, case["model"]), entered=g.entered)
            for e in errors:
                if scen == "once_listener" or "IndexError" in e or "AssertionError" in e:
                    V("dispatch_raised", "concurrent dispatch raised %s (scenario=%s model=%s)" % (e[:80], scen, case["model"]))
                else:
                    bump("probe:other_exception")
    finally:
        patch.restore()
        for c in cleanup:
            try:
                c()
            except Exception:
                pass
        gc.collect()
    bump("steps", sim.steps)
    bump("context_switches", sim.context_switches)
    bump("model_" + case["model"])
    bump("scenario_" + scen)
    bump("sched_runs")
    if any(g.raise_first and g.entered for g in guards):
        bump("fault:listener_exception")
    digest = digest_of([{k: v for k, v in case.items() if k not in ("seed", "idx")}, sim.site_log,
                        [(g.name, g.entered, g.completed) for g in guards]])
    return {"viol": viol, "digest": digest, "nontrivial": sim.context_switches > len(sim.threads),
            "counters": counters, "sets": {"interleavings": [sim.interleaving_digest()]},
            "trace": [(g.name, g.entered, g.completed) for g in guards], "switch_log": sim.switch_log}
