"""C37 — both sides of a bidirectional relationship always agree (ormsim)."""
from props import _orm


def _cfg(rng, cfg):
    cfg["o2o_steal"] = rng.random() < 0.1      # KF-C37-1 is exercised in a few histories only (it ends them)


def _shape(rng, pool, cfg):
    """one-to-one take-over scenarios (two owners, one member or one owner, two members), then free play"""
    if rng.random() > 0.15:
        return None
    r = lambda: rng.randrange(64)
    odd = lambda: 1 + 6 * rng.randrange(10)          # a2 % 3 != 0 and odd: parent side assignment;  +3 -> even: member side
    prog = [["mk", 0, 1 + 3 * rng.randrange(20)], ["mk", 7, 1 + 3 * rng.randrange(20)], ["mk", 0, 1 + 3 * rng.randrange(20)],
            ["mk", 7, 1 + 3 * rng.randrange(20)]]
    if rng.random() < 0.5:
        prog.append([rng.choice(("flush", "commit")), 0, 0])
    for _ in range(rng.randint(2, 5)):
        prog.append(["set_p", rng.randrange(2), rng.choice((1, 5, 7, 11, 2, 4, 8, 10))])
        if rng.random() < 0.3:
            prog.append([rng.choice(("flush", "lazy", "commit", "rollback")), r(), r()])
    prog += [[rng.choice(pool), r(), r()] for _ in range(rng.randint(0, 10))]
    return prog

_orm.define(globals(), "C37", ("C37",), "backrefs",
            "deterministic simulation: seeded ORM session histories mutating either side of one-to-many / many-to-one, one-to-one, many-to-many "
            "and self-referential backref pairs (append, remove, replace, slice, reassign, delete of the attribute) interleaved with flush, "
            "commit, rollback and reload; after every operation both loaded sides must agree, and after commit a fresh session must load the "
            "same pairs",
            "seeded search; agreement is judged on loaded state only (an unloaded side is not an inconsistency), reload agreement through the "
            "C30 reload oracle.  Sampled.",
            "set-based collections are not part of the universe; the dict-based pair G.opts / O.g is",
            weights={"set_parent": 6, "bs_append": 5, "bs_remove": 5, "bs_replace": 4, "tag_add": 4, "tag_remove": 4, "node_parent": 5, "follow": 4,
                     "unfollow": 3, "set_p": 4, "lazy": 3, "flush": 3, "commit": 2, "rollback": 2, "g_ops": 4, "o_bounce": 4}, cfg_fn=_cfg, shape=_shape)
