"""C37 — both sides of a bidirectional relationship always agree (ormsim)."""
from props import _orm

_orm.define(globals(), "C37", ("C37",), "backrefs",
            "deterministic simulation: seeded ORM session histories mutating either side of one-to-many / many-to-one, one-to-one, many-to-many "
            "and self-referential backref pairs (append, remove, replace, slice, reassign, delete of the attribute) interleaved with flush, "
            "commit, rollback and reload; after every operation both loaded sides must agree, and after commit a fresh session must load the "
            "same pairs",
            "seeded search; agreement is judged on loaded state only (an unloaded side is not an inconsistency), reload agreement through the "
            "C30 reload oracle.  Sampled.",
            "dict- and set-based collections are not part of the universe",
            weights={"set_parent": 6, "bs_append": 5, "bs_remove": 5, "bs_replace": 4, "tag_add": 4, "tag_remove": 4, "node_parent": 5, "follow": 4,
                     "unfollow": 3, "set_p": 4, "lazy": 3, "flush": 3, "commit": 2, "rollback": 2})
