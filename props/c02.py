"""C02 — the compiled-statement cache is transparent.

cachesim: one Engine whose compiled cache (seeded capacity 1/2/5/500, so eviction and re-population happen inside short
histories) is shared by every execution, next to a reference engine with the cache disabled on a twin database.
 kind=seq     — a seeded history of executions drawn from statement families (consecutive draws biased to be structurally similar
                but not equal); cursor-level SQL, DBAPI parameters and rows are compared per execution; statements whose cache keys
                compare equal must have identical uncached SQL.  Derived cases fail one SELECT at the driver (cache poisoning).
 kind=threads — threadsim: 2-3 threads with their own connections execute such statements concurrently through the shared cache
                (pre-emption inside compile/cache/parameter construction); each result is compared with the reference engine.
"""
import gc
import os
import random
import shutil
import tempfile
import warnings

from simfw import cachesim as CS
from simfw import sqlproxy as SP
from simfw import threadsim as TS
from simfw.core import digest_of

ID = "C02"
LEVEL = "exploration"
ENGINE = "cachesim"
TECHNIQUE = ("deterministic simulation: seeded execution histories through a shared, small compiled cache vs an uncached reference engine "
             "(SQL text, DBAPI parameters, rows compared per execution; equal cache keys must mean equal SQL); seeded thread schedules "
             "over concurrent executions sharing cached Compiled objects; driver-error injection against cache poisoning")
LEVEL_TEXT = ("seeded search over histories of structurally similar statements (17 families incl. IN lists, expanding binds, literal_execute, "
              "LIMIT/OFFSET, subqueries/CTE/union, typed literals, DML key sets/executemany/RETURNING, ORM loader options and criteria) "
              "under cache capacities that force eviction, and over thread interleavings of concurrent executions.  Sampled; a cache-key "
              "defect in a construct the families do not build is invisible (evidence lists the families).")
LEVEL_NOTE = ("SQLite only; reference = same construct rebuilt and executed on an engine with query_cache_size=0; thread pre-emption at line "
              "granularity in sql/elements.py, sql/compiler.py, sql/cache_key.py, engine/default.py, engine/base.py, util/_collections.py")
TIERS = {
    "quick": {"runs": 1500, "secs": 35},
    "thorough": {"runs": 100000, "secs": 480, "hashseeds": [0, 1]},
}
SHRINK = ["hist", "faults", "switches"]
MIN_BUDGET = 120
RULE = ("history = list of (family, sub-seed) executions + cache capacity; distinct = digest of history and outcomes; non-trivial = at least "
        "one cache hit on a statement whose literal values differ from those of the statement that populated the entry")
COMPONENTS_REAL = ["sqlalchemy.sql (cache_key, compiler, elements._compile_w_cache)", "sqlalchemy.engine (default execution context, "
                   "parameter construction, post-compile expansion, cursor metadata)", "sqlalchemy.util LRUCache", "ORM compile state / loader options",
                   "SQLite via stdlib sqlite3"]
COMPONENTS_STUB = ["reference engine (cache disabled) on a twin database", "DBAPI proxy for driver faults", "thread scheduler (kind=threads)"]
ASSUMPTIONS = ["pure-Python implementations of the _cy modules ran"]

TRACE = ("sql/elements.py", "sql/compiler.py", "sql/cache_key.py", "engine/default.py", "engine/base.py", "util/_collections.py")
_m = {}
_dir = [None]


def setup():
    CS.setup()
    _m["fams"] = CS.families()
    import sqlalchemy.util._collections as ucoll
    import sqlalchemy.util as sautil
    from sqlalchemy.orm import Session
    from sqlalchemy import exc
    _m.update(ucoll=ucoll, sautil=sautil, Session=Session, exc=exc)
    _dir[0] = tempfile.mkdtemp(prefix="verif-c02-", dir="/dev/shm" if os.path.isdir("/dev/shm") else None)
    import atexit
    atexit.register(lambda: shutil.rmtree(_dir[0], ignore_errors=True))
    # warm-up: imports, dialect initialisation, mapper configuration
    p = CS.Pair(10)
    with p.subject.connect() as c, p.reference.connect() as r:
        ss, sr = Session(c), Session(r)
        for name in sorted(_m["fams"]):
            CS.run_one(p, c, r, ss, sr, _m["fams"][name](random.Random(1)))
        ss.close()
        sr.close()
    p.dispose()
    CS.freeze_gc()


FAM_NAMES = None


def gen_hist(rng, n, select_only=False):
    names = sorted(_m["fams"]) if _m.get("fams") else sorted(CS.families())
    if select_only:
        names = [x for x in names if x not in ("insert_keys", "insert_values_returning", "update_delete", "dml_embedded_params", "orm_options", "orm_from_statement_params")]
    hist = []
    cur = rng.choice(names)
    for _ in range(n):
        if rng.random() > 0.6:
            cur = rng.choice(names)
        hist.append([cur, rng.getrandbits(24)])
    return hist


def gen_case(rng, tier):
    if rng.random() < 0.8:
        return {"kind": "seq", "cache": rng.choice([1, 2, 5, 500]), "hist": gen_hist(rng, rng.randint(10, 50)), "faults": [], "switches": None}
    nt = rng.randint(2, 3)
    case = {"kind": "threads", "cache": rng.choice([1, 2, 5, 500]), "threads": [gen_hist(rng, rng.randint(2, 5), True) for _ in range(nt)],
            "hist": None, "faults": [], "switches": None, "model": "F" if rng.random() < 0.4 else "G"}
    if rng.random() < 0.45:
        case["sched"] = {"mode": "seed", "seed": rng.getrandbits(32), "policy": "pct", "depth": rng.choice([1, 2, 3]),
                         "horizon": rng.choice([2000, 10000, 40000])}
    else:
        case["sched"] = {"mode": "seed", "seed": rng.getrandbits(32), "policy": "rw", "p": rng.choice([0.005, 0.02, 0.1])}
    return case


def derive_cases(case, res):
    if case["kind"] != "seq":
        return
    n = res.get("subject_selects", 0)
    rng = random.Random(case["seed"] ^ 0xC02)
    for k in sorted(set(rng.randint(1, n) for _ in range(min(4, n)))) if n else []:
        c = dict(case)
        c["faults"] = [["execute:SELECT", k, "error"]]
        yield c


def explicit_of(case, res):
    if case["kind"] != "threads":
        return case
    c = dict(case)
    c["switches"] = res["switch_log"]
    return c


def run_case(case):
    if case["kind"] == "seq":
        return run_seq(case)
    return run_threads(case)


def _item(name, sub):
    return _m["fams"][name](random.Random(sub))


def run_seq(case):
    Session, exc = _m["Session"], _m["exc"]
    viol = []
    counters = {}
    trace = []

    def bump(k, n=1):
        counters[k] = counters.get(k, 0) + n

    def V(oracle, sig, **detail):
        if not viol:
            viol.append({"oracle": oracle, "sig": sig, "detail": detail})

    plan = SP.Plan(case["faults"])
    plan.enabled = False
    mod = SP.make_module(plan)
    with warnings.catch_warnings():
        warnings.simplefilter("ignore")
        pair = CS.Pair(case["cache"], module_subject=mod)
        plan.enabled = True
        base_sel = sum(1 for c in plan.calls if c[0] == "execute" and (c[1] or "").startswith("SELECT"))
        keyreg = {}     # cache key -> (reference sql, desc)
        try:
            cs, cr = pair.subject.connect(), pair.reference.connect()
            ss, sr = Session(cs), Session(cr)
            for i, (name, sub) in enumerate(case["hist"]):
                item = _item(name, sub)
                fired0 = len(plan.fired)
                hits0 = _cache_stats(pair.subject)
                o_s, o_r, c_s, c_r = CS.run_one(pair, cs, cr, ss, sr, item)
                faulted = len(plan.fired) > fired0
                trace.append([i, name, item["desc"], o_s[0], "fault" if faulted else ""])
                if faulted:
                    bump("fault:execute_error")
                    if o_s[0] != "raised":
                        V("fault_swallowed", "an injected driver error produced no exception for %s" % item["desc"], op=i)
                    # the failed statement ran inside a transaction on the subject only; keep the twins aligned
                    for sx in (ss, sr):
                        sx.rollback()
                        sx.expunge_all()
                    cs.rollback()
                    cr.rollback()
                    continue
                if o_s != o_r:
                    V("wrong_result_with_cache", "family %s [%s] (cache capacity %d): with the cache %s, without %s"
                      % (name, item["desc"], case["cache"], repr(o_s)[:140], repr(o_r)[:140]), op=i)
                elif [c[0] for c in c_s] != [c[0] for c in c_r]:
                    V("wrong_sql_with_cache", "family %s [%s]: SQL with the cache %s, without %s"
                      % (name, item["desc"], [c[0][:100] for c in c_s], [c[0][:100] for c in c_r]), op=i)
                elif [c[1] for c in c_s] != [c[1] for c in c_r]:
                    V("wrong_parameters_with_cache", "family %s [%s]: DBAPI parameters with the cache %s, without %s"
                      % (name, item["desc"], [c[1] for c in c_s][:3], [c[1] for c in c_r][:3]), op=i)
                # equal cache keys  =>  identical uncached SQL
                try:
                    stmt = item["build"]()[0]
                    ck = stmt._generate_cache_key()
                    if ck is not None and c_r:
                        prev = keyreg.get(ck.key)
                        # the *compiled* form (before post-compile expansion of IN lists / literal_execute) is what the key stands for
                        comp = stmt.compile(dialect=pair.reference.dialect)
                        sql_r = (comp.string, tuple(type(comp.binds[n].type).__name__ for n in (comp.positiontup or ())))
                        if prev is None:
                            keyreg[ck.key] = (sql_r, item["desc"])
                        else:
                            if prev[1] != item["desc"]:
                                bump("probe:equal_key_different_literals")
                            if prev[0] != sql_r and item["kind"] != "orm":
                                V("equal_cache_key_different_sql", "two statements with equal cache keys compile to different SQL: [%s] %s vs [%s] %s"
                                  % (prev[1], repr(prev[0])[:120], item["desc"], repr(sql_r)[:120]), op=i)
                except Exception:
                    pass
                if item["kind"] == "dml":
                    cs.commit()
                    cr.commit()
                if viol:
                    break
            ss.close()
            sr.close()
            cs.close()
            cr.close()
        finally:
            sub_sel = sum(1 for c in plan.calls if c[0] == "execute" and (c[1] or "").startswith("SELECT")) - base_sel
            pair.dispose()
            gc.collect()
    bump("executions", len(trace))
    bump("cache_capacity_%d" % case["cache"])
    for t in trace:
        bump("family:" + t[1])
    return {"viol": viol, "digest": digest_of([case["cache"], case["hist"], case["faults"], trace]),
            "nontrivial": counters.get("probe:equal_key_different_literals", 0) > 0, "counters": counters,
            "sets": {"families": sorted({t[1] for t in trace})}, "trace": trace[:40], "subject_selects": sub_sel}


def _cache_stats(engine):
    try:
        return len(engine._compiled_cache)
    except Exception:
        return 0


def run_threads(case):
    exc = _m["exc"]
    viol = []
    counters = {}

    def bump(k, n=1):
        counters[k] = counters.get(k, 0) + n

    def V(oracle, sig, **detail):
        if not viol:
            viol.append({"oracle": oracle, "sig": sig, "detail": detail})

    sched = case["sched"]
    if case.get("switches") is not None:
        sched = {"mode": "explicit", "switches": case["switches"]}
    sim = TS.Sim(sched, TRACE, model=case["model"], max_steps=400000)
    patch = TS.Patch()
    patch.set(_m["ucoll"], "threading", TS.SHIM)
    if case["model"] == "F":
        patch.set(_m["sautil"], "mini_gil", TS.SimRLock())
    results = {}
    with warnings.catch_warnings():
        warnings.simplefilter("ignore")
        pair = CS.Pair(case["cache"])
        try:
            conns = [pair.subject.connect() for _ in case["threads"]]    # StaticPool: one shared sqlite handle, used one thread at a time
            caps = {}

            def worker(ti, hist):
                def run():
                    for j, (name, sub) in enumerate(hist):
                        item = _item(name, sub)
                        try:
                            stmt, params, opts = item["build"]()
                            n0 = len(pair.cap["s"])
                            r = conns[ti].execute(stmt, params, execution_options=opts or {}) if params is not None else \
                                conns[ti].execute(stmt, execution_options=opts or {})
                            rows = CS.norm_rows(r.all()) if r.returns_rows else r.rowcount
                            results[(ti, j)] = ("rows", rows)
                        except TS.SimAbort:
                            raise
                        except Exception as e:     # noqa
                            results[(ti, j)] = ("raised", type(e).__name__ + ":" + str(e)[:80])
                    return True
                return run
            for ti, hist in enumerate(case["threads"]):
                sim.spawn(worker(ti, hist))
            sim.run()
            ok = not sim.aborting
            if sim.deadlock is not None:
                V("deadlock", "threads deadlocked while sharing the compiled cache", threads=sim.deadlock)
        finally:
            patch.restore()
        if ok and not viol:
            with pair.reference.connect() as cr:
                for ti, hist in enumerate(case["threads"]):
                    for j, (name, sub) in enumerate(hist):
                        item = _item(name, sub)
                        stmt, params, opts = item["build"]()
                        try:
                            r = cr.execute(stmt, params, execution_options=opts or {}) if params is not None else cr.execute(stmt, execution_options=opts or {})
                            want = ("rows", CS.norm_rows(r.all()) if r.returns_rows else r.rowcount)
                        except Exception as e:     # noqa
                            want = ("raised", type(e).__name__)
                        got = results.get((ti, j))
                        if got is None:
                            continue
                        if got[0] != want[0] or (got[0] == "rows" and got[1] != want[1]):
                            V("wrong_result_with_cache", "concurrent execution of family %s [%s] (cache capacity %d, model %s): got %s, reference %s"
                              % (name, item["desc"], case["cache"], case["model"], repr(got)[:140], repr(want)[:140]), thread=ti, op=j)
        pair.dispose()
        gc.collect()
    bump("steps", sim.steps)
    bump("context_switches", sim.context_switches)
    bump("model_" + case["model"])
    bump("thread_runs")
    return {"viol": viol, "digest": digest_of([case["cache"], case["threads"], sorted((k, repr(v)[:60]) for k, v in results.items()), sim.site_log]),
            "nontrivial": sim.context_switches > len(sim.threads), "counters": counters,
            "sets": {"interleavings": [sim.interleaving_digest()]}, "trace": sorted((k, v[0]) for k, v in results.items()),
            "switch_log": sim.switch_log}
