"""C52 — scoped_session gives each scope its own session, under any thread interleaving.

threadsim: 2-4 worker threads call registry(), proxied attributes, remove() and registry(**kw) on one real
scoped_session, with the default thread-local registry or a scopefunc registry whose scopes may be shared by
two workers.  Oracles are evaluated over the recorded invoke/return history (global event sequence numbers).
"""
import gc

from simfw import threadsim as TS
from simfw.core import digest_of

ID = "C52"
LEVEL = "exploration"
ENGINE = "threadsim"
TECHNIQUE = ("deterministic simulation: seeded scheduler over real parked threads (models G/F, random-walk + PCT) driving a real "
             "scoped_session; history oracle over invoke/return events stamped with the simulator's global sequence number")
LEVEL_TEXT = ("seeded search over thread interleavings of registry()/proxy/remove() workloads on scoped_session with thread-local and "
              "scopefunc registries (scopes optionally shared by two workers); identity, isolation and close/discard oracles over the "
              "recorded history.  Sampled schedules, not exhaustive.")
LEVEL_NOTE = ("pre-emption at traced line boundaries of orm/scoping.py, util/_collections.py and inside the session factory; a tracked "
              "Session subclass (sessionmaker(class_=...)) observes creation and close(); same-scope oracles are suspended around "
              "overlapping remove() calls because Session objects themselves are documented as not thread-safe")
TIERS = {
    "quick": {"runs": 6000, "secs": 30},
    "thorough": {"runs": 300000, "secs": 420, "hashseeds": [0, 1]},
}
SHRINK = ["switches"]
MIN_BUDGET = 120
RULE = ("one run = registry kind + worker->scope map + per-worker op lists + seeded schedule; distinct = digest of (config, per-worker "
        "outcomes, interleaving sites); non-trivial = >=2 workers obtained a session and >=1 pre-emptive context switch")
COMPONENTS_REAL = ["sqlalchemy.orm.scoping.scoped_session", "sqlalchemy.util._collections.ScopedRegistry/ThreadLocalRegistry",
                   "sqlalchemy.orm.session.Session/sessionmaker"]
COMPONENTS_STUB = ["thread scheduler", "tracked Session subclass (records creation scope and close)"]
ASSUMPTIONS = ["switches only at traced line boundaries / explicit yield in the session factory",
               "pure-Python implementations of the _cy modules ran"]

TRACE = ("orm/scoping.py", "util/_collections.py")
_m = {}


def setup():
    import sqlalchemy.util._collections as ucoll
    import sqlalchemy.util as sautil
    from sqlalchemy import exc
    from sqlalchemy.orm import scoped_session, sessionmaker, Session
    _m.update(ucoll=ucoll, scoped_session=scoped_session, sessionmaker=sessionmaker, Session=Session, exc=exc, sautil=sautil)
    ss = scoped_session(sessionmaker())
    ss()
    ss.info
    ss.remove()
    ss2 = scoped_session(sessionmaker(), scopefunc=lambda: 1)
    ss2()
    ss2.remove()
    gc.disable()
    gc.collect()
    gc.freeze()


def gen_case(rng, tier):
    nw = rng.randint(2, 4)
    kind = rng.choice(["threadlocal", "scopefunc", "scopefunc"])
    if kind == "threadlocal":
        scopes = list(range(nw))
    else:
        nscopes = rng.randint(1, nw)
        scopes = [rng.randrange(nscopes) for _ in range(nw)]
    progs = []
    for w in range(nw):
        ops = []
        shared = scopes.count(scopes[w]) > 1
        for _ in range(rng.randint(3, 10)):
            op = rng.choice(["get", "get", "get", "proxy", "proxy", "remove", "call_kw", "has"])
            if op == "call_kw" and shared:
                # registry(**kw) is "configure the session on first use": has()-then-set() by design, and two threads
                # configuring one scope at the same instant is outside what the property (or Session) supports
                op = "get"
            ops.append(op)
        progs.append(ops)
    if rng.random() < 0.45:
        sched = {"mode": "seed", "seed": rng.getrandbits(32), "policy": "pct", "depth": rng.choice([1, 2, 3]),
                 "horizon": rng.choice([60, 200, 600])}
    else:
        sched = {"mode": "seed", "seed": rng.getrandbits(32), "policy": "rw", "p": rng.choice([0.05, 0.1, 0.3, 0.5])}
    # a second generation of threads started after every thread of the first one has ended (most of them without remove()): a new
    # thread is a new scope, whatever identifiers the operating system recycles
    gen2 = rng.randint(1, 3) if kind == "threadlocal" and rng.random() < 0.5 else 0
    return {"kind": kind, "scopes": scopes, "progs": progs, "model": "F" if rng.random() < 0.4 else "G", "sched": sched,
            "switches": None, "gen2": gen2}


def explicit_of(case, res):
    c = dict(case)
    c["switches"] = res["switch_log"]
    return c


def simplify(case):
    if case.get("switches") is not None:
        return
    progs = case["progs"]
    for w in range(len(progs)):
        for i in range(len(progs[w])):
            c = dict(case)
            c["progs"] = [list(p) for p in progs]
            del c["progs"][w][i]
            yield c


def run_case(case):
    scoped_session, sessionmaker, Session, exc = _m["scoped_session"], _m["sessionmaker"], _m["Session"], _m["exc"]
    sched = case["sched"]
    if case.get("switches") is not None:
        sched = {"mode": "explicit", "switches": case["switches"]}
    sim = TS.Sim(sched, TRACE, model=case["model"], max_steps=40000)
    patch = TS.Patch()
    patch.set(_m["ucoll"], "threading", TS.SHIM)
    if case["model"] == "F":
        patch.set(_m["sautil"], "mini_gil", TS.SimRLock())
    viol = []
    counters = {}
    seq = [0]
    sessions = []      # tracked sessions in creation order
    hist = []          # (worker, scope, op, inv, ret, result-label)

    def bump(k, n=1):
        counters[k] = counters.get(k, 0) + n

    def V(oracle, sig, **detail):
        if not any(v["oracle"] == oracle for v in viol):
            viol.append({"oracle": oracle, "sig": sig, "detail": detail})

    def stamp():
        seq[0] += 1
        return seq[0]

    scopes = list(case["scopes"])
    kind = case["kind"]
    cur_sim = [sim]
    scope_base = [0]

    def cur_scope():
        s_ = cur_sim[0]
        return scopes[scope_base[0] + s_.cur.tid] if s_.cur is not None else -1

    class TrackedSession(Session):
        def __init__(self, **kw):
            self._c52_label = len(sessions)
            self._c52_scope = cur_scope()
            self._c52_worker = cur_sim[0].cur.tid if cur_sim[0].cur is not None else -1
            self._c52_closed_by = []
            sessions.append(self)
            cur_sim[0].preempt_point(("factory", "enter"))     # a slow session factory
            super().__init__(**kw)
            cur_sim[0].preempt_point(("factory", "exit"))

        def close(self):
            self._c52_closed_by.append((cur_scope(), stamp()))
            super().close()

    factory = sessionmaker(class_=TrackedSession)
    if kind == "threadlocal":
        ss = scoped_session(factory)
    else:
        ss = scoped_session(factory, scopefunc=cur_scope)

    def worker(w, ops):
        def run():
            sc = scopes[scope_base[0] + w]
            for op in ops:
                inv = stamp()
                res = None
                try:
                    if op == "get":
                        res = ss()._c52_label
                    elif op == "proxy":
                        ss.info            # proxied attribute: resolves the current scope's session
                        res = ss.registry()._c52_label
                    elif op == "remove":
                        ss.remove()
                    elif op == "has":
                        res = "has:%s" % bool(ss.registry.has())
                    elif op == "call_kw":
                        try:
                            res = ss(info={"w": w})._c52_label
                        except exc.InvalidRequestError:
                            res = "configured-error"
                except TS.SimAbort:
                    raise
                except Exception as e:
                    res = "raised:" + type(e).__name__
                    bump("probe:unexpected_exception_" + type(e).__name__)
                hist.append((w, sc, op, inv, stamp(), res))
            return True
        return run

    for w, ops in enumerate(case["progs"]):
        sim.spawn(worker(w, ops))
    try:
        sim.run()
        if sim.deadlock is not None:
            V("deadlock", "workers deadlocked inside scoped_session", threads=sim.deadlock)
        ok = not sim.aborting
        n2 = case.get("gen2", 0)
        if ok and n2:
            # every first-generation thread has ended; the second generation runs without pre-emption (it only asks for its session)
            nw = len(case["progs"])
            scope_base[0] = nw
            scopes.extend(range(nw, nw + n2))
            # one at a time, twice as many as drawn: each ends before the next starts, so the operating system gets every chance to
            # hand a dead thread's identifier to a new one (which must not matter)
            n2_drawn = n2
            n2 = max(6, 2 * n2)        # (several chances: whether an identifier is recycled is the operating system's decision)
            scopes.extend(range(nw + n2_drawn, nw + n2))
            for w in range(n2):
                sim2 = TS.Sim({"mode": "explicit", "switches": []}, TRACE, model=case["model"], max_steps=20000)
                cur_sim[0] = sim2
                scope_base[0] = nw + w
                sim2.spawn(worker(0, ["get", "has", "get"]))
                sim2.run()
                ok = ok and not sim2.aborting
            bump("probe:second_generation_threads", n2)
    finally:
        patch.restore()

    if ok:
        by_scope = {}
        for h in hist:
            by_scope.setdefault(h[1], []).append(h)
        for sc, hs in sorted(by_scope.items()):
            gets = [h for h in hs if isinstance(h[5], int)]
            removes = [h for h in hs if h[2] == "remove"]
            # I1: a scope only ever sees sessions created in that scope (thread-local: by that worker)
            for h in gets:
                s = sessions[h[5]]
                if s._c52_scope != sc:
                    V("session_shared_across_scopes", "scope %s received session #%d created in scope %s (registry=%s)"
                      % (sc, h[5], s._c52_scope, kind), worker=h[0])
            # I2: no remove() of this scope anywhere inside the span of two gets  =>  identical session
            for i in range(len(gets)):
                for j in range(i + 1, len(gets)):
                    a, b = gets[i], gets[j]
                    lo, hi = min(a[3], b[3]), max(a[4], b[4])
                    if any(not (r[4] < lo or r[3] > hi) for r in removes):
                        continue
                    if a[5] != b[5]:
                        V("different_sessions_in_one_scope", "scope %s got sessions #%d and #%d with no remove() in between (registry=%s)"
                          % (sc, a[5], b[5], kind), first=list(a), second=list(b))
            # I3: remove() closes and discards the scope's session, and only that one
            overlapping = any(not (o[4] < r[3] or o[3] > r[4]) for r in removes for o in hs if o is not r)
            mine = [s for s in sessions if s._c52_scope == sc]
            for s in mine:
                for (by, _st) in s._c52_closed_by:
                    if by != sc:
                        V("remove_closed_other_scope", "session #%d of scope %s was closed from scope %s" % (s._c52_label, sc, by))
            if not overlapping and mine:
                # sessions handed out and later replaced must have been closed by the remove() that discarded them
                handed = []
                for h in hs:
                    if isinstance(h[5], int) and h[5] not in handed:
                        handed.append(h[5])
                last_remove = max((r[4] for r in removes), default=0)
                for lab in handed:
                    s = sessions[lab]
                    later_gets = [h for h in gets if h[5] != lab and h[3] > max((g[4] for g in gets if g[5] == lab), default=0)]
                    if later_gets and not s._c52_closed_by:
                        V("discarded_session_not_closed", "scope %s: session #%d was replaced by another one but never closed (registry=%s)"
                          % (sc, lab, kind))
                for r in removes:
                    before = [h for h in gets if h[4] < r[3]]
                    after = [h for h in gets if h[3] > r[4]]
                    if before and after and before[-1][5] == after[0][5]:
                        V("remove_did_not_discard", "scope %s: the same session #%d is returned after remove()" % (sc, after[0][5]))
                    if before:
                        s = sessions[before[-1][5]]
                        if not any(st > r[3] and st < r[4] for (_b, st) in s._c52_closed_by) and not any(
                                rr is not r and rr[3] > before[-1][4] and rr[4] < r[3] for rr in removes):
                            V("remove_did_not_close", "scope %s: remove() did not close the current session #%d" % (sc, s._c52_label))
    bump("steps", sim.steps)
    bump("context_switches", sim.context_switches)
    bump("model_" + case["model"])
    bump("registry_" + kind)
    bump("sessions_created", len(sessions))
    if len(set(scopes)) < len(scopes):
        bump("probe:scope_shared_by_two_workers")
    per_worker = sorted((h[0], h[2], str(h[5])) for h in hist)
    digest = digest_of([case["kind"], scopes, case["progs"], per_worker, sim.site_log])
    got_workers = {h[0] for h in hist if isinstance(h[5], int)}
    for s in sessions:
        try:
            Session.close(s)
        except Exception:
            pass
    return {"viol": viol, "digest": digest,
            "nontrivial": len(got_workers) >= 2 and sim.context_switches > len(sim.threads),
            "counters": counters, "sets": {"interleavings": [sim.interleaving_digest()]},
            "trace": [list(h) for h in hist[:40]], "switch_log": sim.switch_log}
