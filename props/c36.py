"""C36 — attribute history reports exactly the net change since load (ormsim)."""
from props import _orm

_orm.define(globals(), "C36", ("C36",), "history",
            "deterministic simulation: seeded ORM session histories of scalar assignments and collection mutations between flushes; before each "
            "flush the history of every loaded attribute must equal the difference between the value the harness recorded at load / last flush "
            "and the current value, and the UPDATE statements of the flush must set only columns whose net value changed",
            "seeded search with set / set-back / append / remove / replace / move sequences on new and loaded objects; history is read with "
            "inspect(obj).attrs[x].history (passive), UPDATE statements are captured at the cursor.  Sampled.",
            "the committed value is the harness's own record of what was loaded or flushed, not the library's committed_state",
            weights={"set": 8, "set_parent": 5, "bs_append": 4, "bs_remove": 4, "bs_replace": 3, "tag_add": 3, "tag_remove": 3, "node_parent": 3,
                     "follow": 2, "unfollow": 2, "flush": 4, "requery": 2, "lazy": 3, "mut_data": 2, "g_ops": 8, "q_ops": 3, "set_p": 6, "h_doc": 2, "commit": 3, "label": 2, "set_k": 4, "expire_attr": 4, "mk_child": 4})
