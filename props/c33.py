"""C33 — Session commit/rollback/savepoint keep the session consistent with the database (ormsim)."""
from props import _orm

_orm.define(globals(), "C33", ("C33",), "txn",
            "deterministic simulation: seeded ORM session histories biased to begin_nested stacks with adds, updates, deletes, PK switches and "
            "flushes; after every commit / rollback / savepoint rollback the probed rows are compared with every *loaded* attribute value "
            "(stale-value detection without triggering loads), with object states and session membership recorded at the savepoint, and "
            "with the rows recorded at the savepoint; a quarter of the shaped histories remove delete-orphan members inside a SAVEPOINT that "
            "is rolled back and then touch them again (no row may be deleted for a removal that was rolled back)",
            "seeded search over histories of nested transactions with expire_on_commit on and off; self-consistency against raw-connection probes "
            "after each transaction boundary.  Sampled.",
            "the pysqlite engine runs in the documented non-legacy mode (connect_args autocommit=False) so that SAVEPOINT is always inside a "
            "transaction; out-of-order use of nested transactions is not generated",
            weights={"begin_nested": 4, "sp_commit": 2, "sp_rollback": 4, "rollback": 3, "commit": 3, "delete": 3, "set": 6, "k_rename": 2,
                     "flush": 6, "expunge": 0, "close": 0, "bulk": 1, "set_k": 2},
            shape=_orm.mixed((0.25, _orm.sp_orphan_blocks), (1, _orm.txn_blocks)), fault_fn=_orm.txn_faults)
