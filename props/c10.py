"""C10 — Result objects deliver exactly the underlying rows under any access pattern.

Stream simulation: the DBAPI cursor is the "network".  A real CursorResult is obtained by executing a SELECT on SQLite through the
proxy with each fetch strategy (default cursor; BufferedRowCursorFetchStrategy via stream_results/max_row_buffer on a harness
dialect with server-side cursors, and via yield_per; FullyBufferedCursorFetchStrategy), the proxy decides cursor.arraysize and can
fail a fetch.  A generated sequence of shape operations (columns x<=3, unique, yield_per, scalars/mappings/tuples views, merge,
freeze) and access operations (next, fetchone, fetchmany(n|None), partitions, all, first, one, one_or_none, scalar*, close, and
operations after exhaustion/close) is compared call by call with a plain list model.
"""
import gc
import warnings

from simfw import sqlproxy as SP
from simfw.core import digest_of

ID = "C10"
LEVEL = "exploration"
ENGINE = "dbsim"
TECHNIQUE = ("deterministic simulation: seeded access-pattern histories over real CursorResult objects on a proxied DBAPI cursor (three fetch "
             "strategies, seeded arraysize/buffer sizes), compared call by call with a list reference model; fetch-error injection at every "
             "driver fetch of each history")
LEVEL_TEXT = ("seeded search over access histories and row sets, each checked op by op against an executable list model, for the default, "
              "buffered (stream_results/max_row_buffer, yield_per) and fully buffered cursor strategies; plus one rerun per driver fetch "
              "call with an injected error.  Sampled, not exhaustive.")
LEVEL_NOTE = ("SQLite rows of hashable values only (unique() over unhashable values is not exercised); fetchmany(None)/partitions(None) sizes "
              "are driver-defined, so only their concatenation is compared; short reads are not injected (PEP 249 does not allow them)")
TIERS = {
    "quick": {"runs": 18000, "secs": 30},
    "thorough": {"runs": 600000, "secs": 420, "hashseeds": [0, 1]},
}
SHRINK = ["shape", "prog", "faults"]
MIN_BUDGET = 200
RULE = ("history = row set + strategy + shape ops + access ops; distinct = digest of all of these and the outcomes; non-trivial = at least "
        "two access operations that returned rows")
COMPONENTS_REAL = ["sqlalchemy.engine.result (Result, ScalarResult, MappingResult, FrozenResult, MergedResult, filters)",
                   "sqlalchemy.engine.cursor (CursorResult, CursorFetchStrategy, BufferedRowCursorFetchStrategy, FullyBufferedCursorFetchStrategy)",
                   "pure-Python _result_cy/_row_cy", "SQLite via stdlib sqlite3"]
COMPONENTS_STUB = ["DBAPI proxy cursor (arraysize, fetch fault points, close accounting)", "harness SQLite dialect with server-side cursors",
                   "list reference model"]
ASSUMPTIONS = ["pure-Python implementations of the _cy modules ran"]

_m = {}


def setup():
    from sqlalchemy import create_engine, exc, select, MetaData, Table, Column, Integer, String, text
    from sqlalchemy.dialects import registry
    from sqlalchemy.dialects.sqlite.base import SQLiteExecutionContext
    from sqlalchemy.dialects.sqlite.pysqlite import SQLiteDialect_pysqlite
    from sqlalchemy.engine import cursor as _cursor
    from sqlalchemy.pool import StaticPool

    class Ctx(SQLiteExecutionContext):
        def create_server_side_cursor(self):
            return self._dbapi_connection.cursor()

        def post_exec(self):
            if self.execution_options.get("c10_fully_buffered"):
                self.cursor_fetch_strategy = _cursor.FullyBufferedCursorFetchStrategy(self.cursor)

    class SimSQLite(SQLiteDialect_pysqlite):
        supports_server_side_cursors = True
        supports_statement_cache = True
        execution_ctx_cls = Ctx
        driver = "c10sim"

    registry.impls["sqlite.c10sim"] = lambda: SimSQLite
    md = MetaData()
    t = Table("t", md, Column("id", Integer, primary_key=True), Column("a", Integer), Column("b", String), Column("c", Integer),
              Column("d", String))
    _m.update(create_engine=create_engine, exc=exc, select=select, t=t, md=md, StaticPool=StaticPool, text=text)
    gc.disable()
    gc.collect()
    gc.freeze()


VALS_A = [0, 1, 1, 2, None]
VALS_B = ["x", "y", "x", None]


def gen_case(rng, tier):
    n = rng.choice([0, 1, 2, 3, 5, 8, 13, 30])
    rows = [[rng.choice(VALS_A), rng.choice(VALS_B), rng.choice([0, 1]), rng.choice(["p", "q"])] for _ in range(n)]
    strategy = rng.choice(["default", "default", "stream", "stream", "yield_per", "fully"])
    cfg = {"strategy": strategy, "max_row_buffer": rng.choice([1, 2, 5, 1000]), "arraysize": rng.choice([1, 2, 3, 7]),
           "yield_per": rng.choice([1, 2, 3, 7])}
    shape = []
    width = 4
    for _ in range(rng.randint(0, 4)):
        k = rng.choice(["columns", "columns", "unique", "yield_per"])
        if k == "columns":
            if width < 1:
                continue
            cnt = rng.randint(1, width)
            idx = [rng.randrange(width) for _ in range(cnt)]
            shape.append(["columns", idx, rng.random() < 0.3])     # third item: address by key name instead of index
            width = cnt
        elif k == "unique":
            shape.append(["unique"])
        else:
            shape.append(["yield_per", rng.choice([1, 2, 3, 7])])
    view = rng.choice(["rows", "rows", "scalars", "scalars", "mappings", "tuples"])
    vshape = {"view": view, "index": rng.randrange(width) if width else 0, "vunique": rng.random() < 0.25,
              "merge": rng.random() < 0.12 and not shape and view in ("rows", "tuples")}
    prog = []
    for _ in range(rng.randint(1, 15)):
        op = rng.choice(["next", "next", "fetchone", "fetchone", "fetchmany", "fetchmany", "fetchmany_none", "partitions", "all",
                         "first", "one", "one_or_none", "scalar_family", "close", "freeze", "late_unique", "iter_k", "late_yield_per"])
        prog.append([op, rng.choice([1, 2, 3, 5]), rng.randrange(3)])
    return {"rows": rows, "cfg": cfg, "shape": shape, "vshape": vshape, "prog": prog, "faults": []}


def derive_cases(case, res):
    seen = set()
    for kind, n in res["fetch_points"]:
        if (kind, n) not in seen:
            seen.add((kind, n))
            c = dict(case)
            c["faults"] = [[kind, n, "error"]]
            yield c


class Model:
    """list model of one result (shared position, projections, view, uniqueness)"""

    def __init__(self, rows, keys):
        self.rows = [tuple(r) for r in rows]
        self.keys = list(keys)
        self.pos = 0
        self.proj = []            # list of index lists
        self.state = "open"       # open | at_end (open or soft closed) | exhausted (soft closed) | closed (hard) | unknown_end (soft or hard closed)
        self.uniq = None          # set of seen signatures, or None
        self.yield_per = None

    def project(self, row, keys=False):
        r = row
        k = self.keys
        for idx in self.proj:
            r = tuple(r[i] for i in idx)
            k = [k[i] for i in idx]
        return (r, k) if keys else r

    def cur_keys(self):
        k = self.keys
        for idx in self.proj:
            k = [k[i] for i in idx]
        return k


def run_case(case):
    create_engine, exc, select, t = _m["create_engine"], _m["exc"], _m["select"], _m["t"]
    cfg = case["cfg"]
    plan = SP.Plan(case["faults"])
    plan.arraysize = cfg["arraysize"]
    if "eng" not in _m:
        _m["mod"] = SP.make_module(plan)
        _m["eng"] = create_engine("sqlite+c10sim://", module=_m["mod"], poolclass=_m["StaticPool"])
    _m["mod"].plan = plan
    eng = _m["eng"]
    viol = []
    trace = []
    counters = {}

    def bump(k, n=1):
        counters[k] = counters.get(k, 0) + n

    def V(oracle, sig, **detail):
        if not viol:
            viol.append({"oracle": oracle, "sig": sig, "detail": detail})

    delivered = [0]
    fetch_points = []
    try:
        with warnings.catch_warnings():
            warnings.simplefilter("ignore")
            plan.enabled = False
            conn = eng.connect()
            _m["md"].create_all(conn)
            if case["rows"]:
                conn.execute(t.insert(), [{"a": r[0], "b": r[1], "c": r[2], "d": r[3]} for r in case["rows"]])
            conn.commit()
            stmt = select(t.c.a, t.c.b, t.c.c, t.c.d).order_by(t.c.id)
            opts = {}
            if cfg["strategy"] == "stream":
                opts = {"stream_results": True, "max_row_buffer": cfg["max_row_buffer"]}
            elif cfg["strategy"] == "fully":
                opts = {"c10_fully_buffered": True}
            ncur0 = len(plan.calls)
            plan.enabled = True
            base_fetch = {k: plan.count.get(k, 0) for k in ("fetchone", "fetchmany", "fetchall")}
            try:
                r = conn.execute(stmt, execution_options=opts)
            except exc.DBAPIError:
                # a fetch fault inside execute() (fully buffered strategy fetches at once)
                r = None
                trace.append(["execute", "raised"])
            cursors_before = None
            model = Model(case["rows"], ["a", "b", "c", "d"])
            m2 = None
            vs = case["vshape"]
            if r is not None and cfg["strategy"] == "yield_per":
                r = r.yield_per(cfg["yield_per"])
                model.yield_per = cfg["yield_per"]
            strat_name = type(r.cursor_strategy).__name__ if r is not None and hasattr(r, "cursor_strategy") else "-"
            bump("strategy_" + strat_name)
            real_cursor = r.cursor if r is not None else None
            # ---------------------------------------------------------------- shape
            if r is not None and vs.get("merge"):
                r2 = conn.execute(stmt)
                r = r.merge(r2)
                model.rows = model.rows + [tuple(x) for x in case["rows"]]
                bump("probe:merged_result")
            if r is not None:
                for sh in case["shape"]:
                    if sh[0] == "columns":
                        idx = sh[1]
                        if any(i >= len(model.cur_keys()) for i in idx):
                            continue
                        args = [model.cur_keys()[i] for i in idx] if sh[2] and len(set(model.cur_keys())) == len(model.cur_keys()) else idx
                        r = r.columns(*args)
                        model.proj.append(list(idx))
                    elif sh[0] == "unique":
                        r = r.unique()
                        model.uniq = set()
                    elif sh[0] == "yield_per":
                        r = r.yield_per(sh[1])
                        model.yield_per = sh[1]
                if len(model.proj) >= 3:
                    bump("probe:three_stacked_projections")
            view = vs["view"]
            obj = r
            width = len(model.cur_keys())
            sidx = vs["index"] % width if width else 0
            if r is not None:
                if view == "scalars":
                    obj = r.scalars(sidx)
                elif view == "mappings":
                    obj = r.mappings()
                elif view == "tuples":
                    obj = r.tuples()
                if vs["vunique"]:
                    obj = obj.unique()
                    model.uniq = set()

            def conv(prow):
                if view == "scalars":
                    return prow[sidx]
                if view == "mappings":
                    return dict(zip(model.cur_keys(), prow))
                return tuple(prow)

            def sig(prow):
                return prow[sidx] if view == "scalars" else tuple(prow)

            def out_norm(x):
                if x is None:
                    return None
                if view == "mappings":
                    return dict(x)
                if view == "scalars":
                    return x
                return tuple(x)

            def take(n):
                """next <=n rows of the model through projection + uniqueness; n None = all"""
                got = []
                while model.pos < len(model.rows) and (n is None or len(got) < n):
                    prow = model.project(model.rows[model.pos])
                    model.pos += 1
                    if model.uniq is not None:
                        s = sig(prow)
                        if s in model.uniq:
                            continue
                        model.uniq.add(s)
                    got.append(conv(prow))
                return got

            def peek_unique(limit):
                """look ahead without consuming: first `limit` deliverable rows"""
                got, pos, seen = [], model.pos, set(model.uniq) if model.uniq is not None else None
                while pos < len(model.rows) and len(got) < limit:
                    prow = model.project(model.rows[pos])
                    pos += 1
                    if seen is not None:
                        s = sig(prow)
                        if s in seen:
                            continue
                        seen.add(s)
                    got.append(conv(prow))
                return got

            def check(i, op, got, want):
                if got != want:
                    gs, ws = repr(got)[:120], repr(want)[:120]
                    V("wrong_rows", "%s on %s view (%s, projections=%d, unique=%s) returned %s, list model %s"
                      % (op, view, strat_name, len(model.proj), model.uniq is not None, gs, ws), op=i)

            # ---------------------------------------------------------------- access ops
            faulted = False
            for i, (op, n, k) in enumerate(case["prog"]):
                if r is None or viol:
                    break
                if op == "fetchone" and view == "scalars":
                    op = "next"        # ScalarResult has no fetchone()
                if model.uniq is not None and model.pos > 0 and op in ("first", "one", "one_or_none", "scalar_family"):
                    # one()/first()/scalar*() look only at the rows still to come; how they relate to rows already delivered
                    # under unique() is not documented, so that mix is not compared (DESIGN §10 observations)
                    op = "all"
                if model.uniq is not None and not model.yield_per:
                    # with a unique filter the number of raw rows consumed depends on the (driver-defined) size asked for;
                    # use explicit sizes so the list model knows exactly what was consumed
                    if op == "fetchmany_none":
                        op = "fetchmany"
                    elif op == "partitions" and not k:
                        k = 1
                out = None
                fired0 = len(plan.fired)
                want_exc = None
                try:
                    if model.state == "closed" and op not in ("close", "late_unique", "late_yield_per"):
                        want_exc = exc.ResourceClosedError
                        if vs.get("merge"):
                            # a closed MergedResult reports exhaustion rather than ResourceClosedError; not asserted either way
                            trace.append([i, op, "skip-closed-merged"])
                            continue
                    if op == "next":
                        try:
                            got = out_norm(next(obj))
                        except StopIteration:
                            got = "stop"
                        if want_exc is None:
                            w = take(1)
                            want = w[0] if w else "stop"
                            if want == "stop":
                                model.state = "exhausted"
                            check(i, op, got, want)
                            out = got
                    elif op == "iter_k":
                        got = []
                        for x in obj:
                            got.append(out_norm(x))
                            if len(got) >= n:
                                break
                        if want_exc is None:
                            want = take(n)
                            if len(want) < n:
                                model.state = "exhausted"
                            check(i, op, got, want)
                            out = len(got)
                    elif op == "fetchone":
                        got = out_norm(obj.fetchone())
                        if want_exc is None:
                            w = take(1)
                            want = w[0] if w else None
                            if not w:
                                model.state = "exhausted"
                            check(i, op, got, want)
                            out = got
                    elif op == "fetchmany":
                        got = [out_norm(x) for x in obj.fetchmany(n)]
                        if want_exc is None:
                            want = take(n)
                            if not want:
                                model.state = "exhausted"
                            check(i, op, got, want)
                            out = len(got)
                    elif op == "fetchmany_none":
                        got = [out_norm(x) for x in obj.fetchmany()]
                        if want_exc is None:
                            # driver-defined size: any non-empty prefix of what remains (all of yield_per if set)
                            if model.yield_per:
                                want = take(model.yield_per)
                                check(i, op, got, want)
                                if not want:
                                    model.state = "exhausted"
                            else:
                                ahead = peek_unique(len(got) if got else 1)
                                if got:
                                    want = take(len(got))
                                    check(i, op, got, want)
                                    # the driver-defined size may or may not have hit the end: "at_end" is set after the op
                                elif ahead:
                                    V("wrong_rows", "fetchmany() returned no rows although %d remain (%s)" % (len(ahead), strat_name), op=i)
                                else:
                                    model.state = "exhausted"
                            out = len(got)
                    elif op == "partitions":
                        got = []
                        sizes = []
                        ended = True
                        for part in obj.partitions(n if k else None):
                            sizes.append(len(part))
                            got.extend(out_norm(x) for x in part)
                            if len(sizes) >= 2 and k != 2:
                                ended = False
                                break
                        if want_exc is None:
                            psize = n if k else model.yield_per
                            if psize:
                                want = []
                                wsizes = []
                                while True:
                                    part = take(psize)
                                    if not part:
                                        model.state = "exhausted"
                                        break
                                    want.extend(part)
                                    wsizes.append(len(part))
                                    if len(wsizes) >= 2 and k != 2:
                                        break
                                check(i, op, got, want)
                                if not viol and sizes != wsizes:
                                    V("wrong_partition_sizes", "partitions(%s) yielded sizes %s, expected %s (%s)" % (psize, sizes, wsizes, strat_name), op=i)
                            else:
                                want = take(len(got))
                                check(i, op, got, want)
                                if ended:
                                    if peek_unique(1):
                                        V("wrong_rows", "partitions() ended although rows remain", op=i)
                                    else:
                                        model.state = "exhausted"
                            out = sizes
                    elif op == "all":
                        got = [out_norm(x) for x in obj.all()]
                        if want_exc is None:
                            want = take(None)
                            model.state = "exhausted"
                            check(i, op, got, want)
                            out = len(got)
                    elif op in ("first", "one", "one_or_none", "scalar_family"):
                        ahead = peek_unique(2) if want_exc is None else []
                        name = op
                        target = obj
                        if op == "scalar_family":
                            # scalar()/scalar_one()/scalar_one_or_none() exist on the Result itself
                            name = ["scalar", "scalar_one", "scalar_one_or_none"][k]
                            target = r
                            if view in ("scalars", "mappings") or vs["vunique"]:
                                name = ["first", "one", "one_or_none"][k]
                                target = obj
                        if want_exc is None:
                            if name in ("first", "scalar"):
                                want = ("val", ahead[0]) if ahead else ("val", None)
                            elif name in ("one", "scalar_one"):
                                want = ("exc", "NoResultFound") if not ahead else (("exc", "MultipleResultsFound") if len(ahead) > 1 else ("val", ahead[0]))
                            else:
                                want = ("val", None) if not ahead else (("exc", "MultipleResultsFound") if len(ahead) > 1 else ("val", ahead[0]))
                            if name.startswith("scalar") and want[0] == "val" and want[1] is not None:
                                want = ("val", want[1][0] if view in ("rows", "tuples") else want[1])
                        try:
                            g = getattr(target, name)()
                            got = ("val", g if name.startswith("scalar") else out_norm(g))
                        except (exc.NoResultFound, exc.MultipleResultsFound) as e:
                            got = ("exc", type(e).__name__)
                        if want_exc is None:
                            if got != want:
                                V("wrong_rows", "%s() on %s view (%s, unique=%s) gave %r, list model %r"
                                  % (name, view, strat_name, model.uniq is not None, got, want), op=i)
                            if model.state == "at_end":
                                # open -> hard-closed, already soft-closed -> stays soft-closed: either is documented behaviour
                                model.state = "unknown_end"
                            elif model.state not in ("exhausted", "unknown_end"):
                                model.state = "closed"      # first()/one()/scalar() discard the rest and close the result
                            model.pos = len(model.rows)
                            out = got
                    elif op == "close":
                        obj.close()
                        if model.state != "closed":
                            model.state = "closed"
                        model.pos = len(model.rows)
                        out = "closed"
                        want_exc = None
                    elif op == "freeze":
                        if view != "rows" or vs["vunique"]:
                            out = "skip"
                            want_exc = None
                        else:
                            fr = r.freeze()
                            if want_exc is None:
                                want = take(None)
                                model.state = "exhausted"
                                a1 = [tuple(x) for x in fr().all()]
                                a2 = [tuple(x) for x in fr().all()]
                                check(i, "freeze()()", a1, want)
                                if not viol and a1 != a2:
                                    V("wrong_rows", "a frozen result replayed differently the second time", op=i)
                                out = len(a1)
                                bump("probe:freeze")
                    elif op == "late_yield_per":
                        # yield_per() on the object being read, after fetching has begun: size-less fetchmany() / partitions() that
                        # follow deliver that many rows per batch
                        if model.state == "open" and hasattr(obj, "yield_per"):
                            obj = obj.yield_per(n)
                            model.yield_per = n
                            bump("probe:yield_per_after_fetching_began")
                        out = "yield_per"
                        want_exc = None
                    elif op == "late_unique":
                        if model.state == "open" and hasattr(obj, "unique"):
                            obj = obj.unique()
                            model.uniq = set()
                            bump("probe:unique_after_fetching_began")
                        out = "unique"
                        want_exc = None
                    if want_exc is not None:
                        V("no_error_after_close", "%s on a closed result returned normally instead of raising ResourceClosedError" % op, op=i)
                except exc.ResourceClosedError:
                    out = "ResourceClosedError"
                    if want_exc is None and model.state != "unknown_end":
                        V("unexpected_closed_error", "%s raised ResourceClosedError while the list model says the result is %s (%s)"
                          % (op, model.state, strat_name), op=i)
                except exc.DBAPIError as e:
                    out = "DBAPIError"
                    if len(plan.fired) == fired0:
                        V("unexpected_dbapi_error", "%s raised %s with no fault injected" % (op, type(e).__name__), op=i)
                    faulted = True
                    trace.append([i, op, out])
                    break
                if isinstance(out, (list, dict, tuple)):
                    out = repr(out)[:60]
                trace.append([i, op, out])
                if out not in (None, "closed", "skip", "unique", "stop", "ResourceClosedError", 0) and out != "[]":
                    delivered[0] += 1
                # Every deliverable row has been handed out but the caller has not been told about exhaustion yet: whether the
                # result has already noticed the end (soft-closed itself: a driver fetch came back short/empty, rows were
                # pre-buffered) or is still open is a buffering detail, not documented behaviour.  "at_end" = {open, soft-closed};
                # it is never hard-closed, so ResourceClosedError is still a violation there.
                if model.state == "open" and not peek_unique(1):
                    model.state = "at_end"
                if not viol and real_cursor is not None and model.state in ("exhausted", "closed") and not vs.get("merge"):
                    if not getattr(real_cursor, "closed", True):
                        V("cursor_left_open", "the DBAPI cursor is still open after the result was %s by %s (%s)" % (model.state, op, strat_name), op=i)
            # ---------------------------------------------------------------- epilogue
            if r is not None:
                try:
                    r.close()
                except exc.SQLAlchemyError:
                    pass
                if real_cursor is not None and not getattr(real_cursor, "closed", True) and not viol:
                    V("cursor_left_open", "the DBAPI cursor is still open after Result.close() (%s)" % strat_name)
            for kind in ("fetchone", "fetchmany", "fetchall"):
                for nn in range(base_fetch[kind] + 1, plan.count.get(kind, 0) + 1):
                    fetch_points.append([kind, nn])
            conn.close()
    finally:
        try:
            eng.dispose()
        except Exception:
            pass
        gc.collect()
    for kk, nn, f, cid in plan.fired:
        bump("fault:%s_%s" % (kk, f))
    bump("view_" + case["vshape"]["view"])
    return {"viol": viol, "digest": digest_of([case["rows"], cfg, case["shape"], case["vshape"], case["prog"], case["faults"], trace]),
            "nontrivial": delivered[0] >= 2, "counters": counters,
            "sets": {"abstract_states": [[cfg["strategy"], case["vshape"]["view"], len(case["shape"]), len(case["rows"])]]},
            "trace": trace, "fetch_points": fetch_points}
