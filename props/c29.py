"""C29 — the asyncio API matches the sync API and is safe under cancellation.

loopsim: real AsyncEngine / AsyncConnection / AsyncSession / AsyncResult, greenlet_spawn/await_, AsyncAdaptedQueuePool and the real
aiosqlite adapter classes run on a virtual-time event loop over a deterministic stand-in for the aiosqlite driver.

 part 1 (kind=equiv)  — a generated program of blocks (engine.connect / engine.begin / AsyncSession; insert, select, streaming partial
                        fetch, savepoints, commit/rollback, ORM add/flush/get/delete) is interpreted through the sync API on one
                        database file and through the async API on a twin; results are compared op by op, then table contents.
 part 2 (kind=cancel) — 1-3 concurrent tasks run such programs; a clean run counts the victim's suspension points P; derived cases
                        deliver Task.cancel() at suspension i for every i<=P, and asyncio.timeout() expiries at seeded virtual times.
"""
import asyncio
import gc
import os
import random
import shutil
import sqlite3
import tempfile
import warnings

from simfw import loopsim as LS
from simfw.core import digest_of

ID = "C29"
LEVEL = "fault_enumeration"
ENGINE = "loopsim"
TECHNIQUE = ("deterministic simulation: virtual-time asyncio loop + deterministic async driver under the real aiosqlite adapter; "
             "sync-vs-async differential over seeded programs; Task.cancel() / timeout injected at every await of the victim task "
             "(crash-point enumeration) under seeded I/O latencies")
LEVEL_TEXT = ("for each seeded multi-task program the victim task's suspension points are counted in a clean run and the program is re-run "
              "once per suspension point with a cancellation delivered exactly there (plus sampled timeouts); pool accounting, open "
              "transactions on pooled driver connections, committed data and post-fault liveness are judged from the raw sqlite3 handles. "
              "Equivalence with the sync API is a seeded differential.  Sampled programs; every await of each sampled program.")
LEVEL_NOTE = ("third-party aiosqlite is replaced by a deterministic stand-in (its worker thread cannot be scheduled); asyncpg/psycopg/aiomysql "
              "need servers and are out of reach; asyncio FIFO scheduling is kept, interleavings come from seeded virtual I/O latencies")
TIERS = {
    "quick": {"runs": 260, "secs": 35},
    "thorough": {"runs": 12000, "secs": 480, "hashseeds": [0, 1]},
}
SHRINK = ["tasks", "faults"]
MIN_BUDGET = 80
RULE = ("base = seeded program (equiv) or seeded 1-3 task program (cancel); derived = one rerun per suspension point of the victim + sampled "
        "timeouts; distinct = digest of program, fault and outcomes; non-trivial = the fault was delivered while a pooled connection was "
        "checked out or being created (cancel) / >=3 ops produced results (equiv)")
COMPONENTS_REAL = ["sqlalchemy.ext.asyncio (AsyncEngine, AsyncConnection, AsyncTransaction, AsyncSession, AsyncResult)",
                   "sqlalchemy.util.concurrency greenlet_spawn/await_", "sqlalchemy.connectors.asyncio + dialects.sqlite.aiosqlite adapter",
                   "AsyncAdaptedQueuePool / AsyncAdaptedQueue", "sync Engine/Session (reference side)", "stdlib sqlite3"]
COMPONENTS_STUB = ["SimLoop (virtual time, no sockets/threads)", "deterministic aiosqlite stand-in (seeded latencies)", "step-counting Task"]
ASSUMPTIONS = ["pure-Python implementations of the _cy modules ran", "gc disabled during runs; gc.collect() at the end of each run"]

_m = {}
_dir = [None]



def _workdir():
    """one directory per worker process: SQLite creates and deletes journal files all the time, and sixteen workers doing that in one
    tmpfs directory serialise on it"""
    d = os.path.join(_dir[0], "p%d" % os.getpid())
    os.makedirs(d, exist_ok=True)
    return d

def setup():
    from sqlalchemy import create_engine, text, exc, event, select, Column, Integer, String
    from sqlalchemy.ext.asyncio import create_async_engine, AsyncSession
    from sqlalchemy.orm import Session, declarative_base
    from sqlalchemy.pool import AsyncAdaptedQueuePool, QueuePool
    Base = declarative_base()

    class Item(Base):
        __tablename__ = "item"
        id = Column(Integer, primary_key=True)
        name = Column(String)

    _m.update(create_engine=create_engine, text=text, exc=exc, event=event, select=select, create_async_engine=create_async_engine,
              AsyncSession=AsyncSession, Session=Session, Item=Item, AQP=AsyncAdaptedQueuePool, QP=QueuePool)
    _dir[0] = tempfile.mkdtemp(prefix="verif-c29-", dir="/dev/shm" if os.path.isdir("/dev/shm") else None)
    import atexit
    atexit.register(lambda: shutil.rmtree(_dir[0], ignore_errors=True))
    gc.disable()
    gc.collect()
    gc.freeze()
    import sys
    sys.unraisablehook = lambda *a: None


# ------------------------------------------------------------------------------------------------ generation

def gen_block(rng, vals):
    kind = rng.choice(["conn", "conn", "begin", "sess"])
    ops = []
    for _ in range(rng.randint(1, 5)):
        if kind in ("conn", "begin"):
            op = rng.choice(["ins", "ins", "sel", "stream", "sp_rollback", "sp_commit"] + (["commit", "rollback"] if kind == "conn" else []))
        else:
            op = rng.choice(["add", "add", "flush", "get", "delete", "commit", "rollback", "query"])
        arg = 0
        if op in ("ins", "add", "sp_rollback", "sp_commit"):
            vals[0] += 1
            arg = vals[0]
        elif op in ("get", "delete"):
            arg = rng.randint(1, max(1, vals[0]))
        elif op == "stream":
            arg = rng.randint(0, 3)
        ops.append([op, arg])
    end = rng.choice(["commit", "commit", "none", "raise"])
    b = {"kind": kind, "ops": ops, "end": end}
    if kind == "conn" and rng.random() < 0.25:
        # a per-connection characteristic (isolation level execution option): it is reset when the connection is checked in, which
        # on the asyncio driver is one more await between "the block is over" and "the connection is back in the pool"
        b["iso"] = "AUTOCOMMIT"
    if kind == "conn" and rng.random() < 0.3:
        b["explicit"] = True       # conn = await engine.connect(); try: ... finally: await conn.close()   (no shielded __aexit__)
    return b


def gen_case(rng, tier):
    if rng.random() < 0.3:
        vals = [0]
        return {"kind": "equiv", "tasks": [[gen_block(rng, vals) for _ in range(rng.randint(1, 4))]], "faults": [], "lat_seed": rng.getrandbits(32),
                "pool_size": 2, "victim": 0}
    nt = rng.randint(1, 3)
    vals = [0]
    tasks = [[gen_block(rng, vals) for _ in range(rng.randint(1, 2))] for _ in range(nt)]
    return {"kind": "cancel", "tasks": tasks, "faults": [], "lat_seed": rng.getrandbits(32), "pool_size": rng.choice([1, 1, 2]),
            "victim": rng.randrange(nt), "overflow": rng.choice([0, 0, 1, 2])}


def derive_cases(case, res):
    if case["kind"] != "cancel":
        return
    P = res.get("victim_steps", 0)
    for i in range(1, P + 1):
        c = dict(case)
        c["faults"] = [["cancel", i]]
        yield c
    rng = random.Random(case["seed"] ^ 0xA51)
    T = res.get("victim_vtime", 0.0)
    for _ in range(min(4, P)):
        c = dict(case)
        c["faults"] = [["timeout", round(rng.uniform(0, T), 4)]]
        yield c


# ------------------------------------------------------------------------------------------------ interpreters

class Boom(Exception):
    pass


class _SyncExplicit:
    """try / finally: conn.close() spelled as a context manager"""
    def __init__(self, conn):
        self.conn = conn

    def __enter__(self):
        return self.conn

    def __exit__(self, *a):
        self.conn.close()
        return False


class _AsyncExplicit:
    """conn = await engine.connect(); try: ... finally: await conn.close() - the close is an ordinary, cancellable await"""
    def __init__(self, start):
        self.start = start

    async def __aenter__(self):
        self.conn = await self.start
        return self.conn

    async def __aexit__(self, *a):
        await self.conn.close()
        return False


def run_sync(engine, blocks, out, acked):
    text, exc, Session, Item, select = _m["text"], _m["exc"], _m["Session"], _m["Item"], _m["select"]
    for b in blocks:
        res = []
        pending = []
        try:
            if b["kind"] in ("conn", "begin"):
                cm = engine.connect() if b["kind"] == "conn" else engine.begin()
                if b.get("explicit"):
                    cm = _SyncExplicit(cm)
                with cm as c:
                    if b.get("iso"):
                        c.execution_options(isolation_level=b["iso"])
                    for op, arg in b["ops"]:
                        res.append(sync_conn_op(c, op, arg, pending, acked, text))
                    if b["end"] == "raise":
                        raise Boom()
                    if b["kind"] == "conn":
                        if b["end"] == "commit":
                            c.commit()
                            acked.update(pending)
                            del pending[:]
                if b["kind"] == "begin":
                    acked.update(pending)
            else:
                with Session(engine) as s:
                    for op, arg in b["ops"]:
                        res.append(sync_sess_op(s, op, arg, pending, acked, Item, select))
                    if b["end"] == "raise":
                        raise Boom()
                    if b["end"] == "commit":
                        s.commit()
                        acked.update(pending)
        except Boom:
            res.append("Boom")
        except exc.SQLAlchemyError as e:
            res.append("raised:" + type(e).__name__)
        out.append(res)


def sync_conn_op(c, op, arg, pending, acked, text):
    if op == "ins":
        c.execute(text("insert into item (id, name) values (:i, :n)"), {"i": arg, "n": "v%d" % arg})
        pending.append(arg)
        return "ins"
    if op == "sel":
        return [tuple(r) for r in c.execute(text("select id, name from item order by id")).all()]
    if op == "stream":
        r = c.execution_options(stream_results=True).execute(text("select id from item order by id"))
        got = [tuple(x) for x in r.fetchmany(arg)] if arg else []
        r.close()
        return got
    if op in ("sp_rollback", "sp_commit"):
        sp = c.begin_nested()
        c.execute(text("insert into item (id, name) values (:i, :n)"), {"i": arg, "n": "s%d" % arg})
        if op == "sp_rollback":
            sp.rollback()
        else:
            sp.commit()
            pending.append(arg)
        return op
    if op == "commit":
        c.commit()
        acked.update(pending)
        del pending[:]
        return "commit"
    if op == "rollback":
        c.rollback()
        del pending[:]
        return "rollback"


def sync_sess_op(s, op, arg, pending, acked, Item, select):
    if op == "add":
        s.add(Item(id=arg, name="o%d" % arg))
        pending.append(arg)
        return "add"
    if op == "flush":
        s.flush()
        return "flush"
    if op == "get":
        o = s.get(Item, arg)
        return None if o is None else (o.id, o.name)
    if op == "delete":
        o = s.get(Item, arg)
        if o is not None:
            s.delete(o)
            pending.append(-arg)
        return "delete:%s" % (o is not None)
    if op == "query":
        return [(o.id, o.name) for o in s.execute(select(Item).order_by(Item.id)).scalars().all()]
    if op == "commit":
        s.commit()
        acked.update(pending)
        del pending[:]
        return "commit"
    if op == "rollback":
        s.rollback()
        del pending[:]
        return "rollback"


async def run_async(engine, blocks, out, acked, inflight):
    text, exc, AsyncSession, Item, select = _m["text"], _m["exc"], _m["AsyncSession"], _m["Item"], _m["select"]
    for b in blocks:
        res = []
        pending = []
        try:
            if b["kind"] in ("conn", "begin"):
                cm = engine.connect() if b["kind"] == "conn" else engine.begin()
                if b.get("explicit"):
                    cm = _AsyncExplicit(cm)
                async with cm as c:
                    if b.get("iso"):
                        await c.execution_options(isolation_level=b["iso"])
                    for op, arg in b["ops"]:
                        res.append(await async_conn_op(c, op, arg, pending, acked, inflight, text))
                    if b["end"] == "raise":
                        raise Boom()
                    if b["kind"] == "conn":
                        if b["end"] == "commit":
                            inflight.update(pending)
                            await c.commit()
                            acked.update(pending)
                            del pending[:]
                    else:
                        inflight.update(pending)     # engine.begin() commits on the way out
                if b["kind"] == "begin":
                    acked.update(pending)
            else:
                async with AsyncSession(engine) as s:
                    for op, arg in b["ops"]:
                        res.append(await async_sess_op(s, op, arg, pending, acked, inflight, Item, select))
                    if b["end"] == "raise":
                        raise Boom()
                    if b["end"] == "commit":
                        inflight.update(pending)
                        await s.commit()
                        acked.update(pending)
        except Boom:
            res.append("Boom")
        except exc.SQLAlchemyError as e:
            res.append("raised:" + type(e).__name__)
        out.append(res)


async def async_conn_op(c, op, arg, pending, acked, inflight, text):
    if op == "ins":
        await c.execute(text("insert into item (id, name) values (:i, :n)"), {"i": arg, "n": "v%d" % arg})
        pending.append(arg)
        return "ins"
    if op == "sel":
        return [tuple(r) for r in (await c.execute(text("select id, name from item order by id"))).all()]
    if op == "stream":
        # documented form: the context manager closes the server-side cursor also when the block is left by cancellation
        async with c.stream(text("select id from item order by id")) as r:
            got = [tuple(x) for x in await r.fetchmany(arg)] if arg else []
        return got
    if op in ("sp_rollback", "sp_commit"):
        sp = await c.begin_nested()
        await c.execute(text("insert into item (id, name) values (:i, :n)"), {"i": arg, "n": "s%d" % arg})
        if op == "sp_rollback":
            await sp.rollback()
        else:
            await sp.commit()
            pending.append(arg)
        return op
    if op == "commit":
        inflight.update(pending)
        await c.commit()
        acked.update(pending)
        del pending[:]
        return "commit"
    if op == "rollback":
        await c.rollback()
        del pending[:]
        return "rollback"


async def async_sess_op(s, op, arg, pending, acked, inflight, Item, select):
    if op == "add":
        s.add(Item(id=arg, name="o%d" % arg))
        pending.append(arg)
        return "add"
    if op == "flush":
        await s.flush()
        return "flush"
    if op == "get":
        o = await s.get(Item, arg)
        return None if o is None else (o.id, o.name)
    if op == "delete":
        o = await s.get(Item, arg)
        if o is not None:
            await s.delete(o)
            pending.append(-arg)
        return "delete:%s" % (o is not None)
    if op == "query":
        return [(o.id, o.name) for o in (await s.execute(select(Item).order_by(Item.id))).scalars().all()]
    if op == "commit":
        inflight.update(pending)
        await s.commit()
        acked.update(pending)
        del pending[:]
        return "commit"
    if op == "rollback":
        await s.rollback()
        del pending[:]
        return "rollback"


def _mkdb(path):
    for suffix in ("", "-journal"):
        try:
            os.unlink(path + suffix)
        except OSError:
            pass
    c = sqlite3.connect(path)
    c.execute("create table item (id integer primary key, name varchar)")
    c.commit()
    c.close()


def run_case(case):
    create_async_engine, create_engine, exc, event, text = (_m["create_async_engine"], _m["create_engine"], _m["exc"], _m["event"], _m["text"])
    viol = []
    counters = {}
    trace = []

    def bump(k, n=1):
        counters[k] = counters.get(k, 0) + n

    def V(oracle, sig, **detail):
        if not any(v["oracle"] == oracle for v in viol):
            viol.append({"oracle": oracle, "sig": sig, "detail": detail})

    apath = os.path.join(_workdir(), "a.db")
    _mkdb(apath)
    rng = random.Random(case["lat_seed"])
    sim = LS.DriverSim(rng)
    loop = LS.new_loop()
    info = {"victim_steps": 0, "victim_vtime": 0.0}
    events = []      # (kind, driver conn id)

    async def creator():
        await asyncio.sleep(sim.delay())
        c = LS.FakeAioConn(sim, apath, timeout=0, isolation_level=None)
        await asyncio.sleep(sim.delay())
        return c

    aeng = create_async_engine("sqlite+aiosqlite:///" + apath, async_creator=creator, poolclass=_m["AQP"],
                               pool_size=case["pool_size"], max_overflow=case.get("overflow", 0), pool_timeout=30)

    @event.listens_for(aeng.sync_engine, "begin")
    def do_begin(conn):
        conn.exec_driver_sql("BEGIN")      # documented SQLite recipe: real transactions and correct SAVEPOINTs

    def cid(dbc):
        try:
            return dbc._connection.id
        except Exception:
            return -1

    @event.listens_for(aeng.sync_engine, "checkout")
    def on_co(dbc, rec, fairy):
        events.append(("co", cid(dbc)))

    @event.listens_for(aeng.sync_engine, "checkin")
    def on_ci(dbc, rec):
        events.append(("ci", cid(dbc) if dbc is not None else -1))

    @event.listens_for(aeng.sync_engine, "invalidate")
    def on_inv(dbc, rec, e):
        events.append(("inv", cid(dbc)))

    @event.listens_for(aeng.sync_engine, "close_detached")
    def on_cd(dbc):
        events.append(("cd", cid(dbc)))

    fault = case["faults"][0] if case["faults"] else None
    outs = [[] for _ in case["tasks"]]
    acked = set()
    inflight = set()
    task_status = {}
    delivered = {"at_checkedout": None}

    def injector(task):
        if fault is not None and fault[0] == "cancel" and task.get_name() == "victim" and task.sim_steps == fault[1] and not info.get("done"):
            info["done"] = True
            delivered["at_checkedout"] = aeng.pool.checkedout()
            task.cancel()
            bump("fault:task_cancel")
    loop.injector = injector

    wlist = []
    sync_out = []
    try:
        with warnings.catch_warnings(record=True) as wlist:
            warnings.simplefilter("always")

            async def victim_wrapper(blocks, out):
                if fault is not None and fault[0] == "timeout":
                    try:
                        async with asyncio.timeout(fault[1]):
                            await run_async(aeng, blocks, out, acked, inflight)
                    except TimeoutError:
                        bump("fault:task_timeout")
                        out.append("TimeoutError")
                else:
                    await run_async(aeng, blocks, out, acked, inflight)

            async def main():
                ts = []
                for ti, blocks in enumerate(case["tasks"]):
                    if ti == case["victim"]:
                        t = asyncio.ensure_future(victim_wrapper(blocks, outs[ti]))
                        t.set_name("victim")
                    else:
                        t = asyncio.ensure_future(run_async(aeng, blocks, outs[ti], acked, inflight))
                        t.set_name("other%d" % ti)
                    ts.append(t)
                res = await asyncio.gather(*ts, return_exceptions=True)
                for t, r in zip(ts, res):
                    task_status[t.get_name()] = "ok" if not isinstance(r, BaseException) else type(r).__name__
                    if t.get_name() == "victim":
                        info["victim_steps"] = t.sim_steps
                        info["victim_vtime"] = loop.time()
                del ts, res, t, r
                gc.collect()
                await asyncio.sleep(0.5)
                # ---------------------------------------------------------------- oracles
                co = aeng.pool.checkedout()
                if co != 0:
                    V("checkedout_nonzero", "pool.checkedout()=%d after the cancelled/timed-out task unwound and every other task finished "
                      "(fault=%s)" % (co, fault), status=aeng.pool.status())
                # returned exactly once: per driver connection, checkout/checkin strictly alternate
                last = {}
                for kind, c_id in events:
                    if kind == "co":
                        if last.get(c_id) == "co":
                            V("double_checkout", "driver connection %d checked out twice without a check-in in between" % c_id)
                        last[c_id] = "co"
                    elif kind == "ci":
                        if c_id >= 0 and last.get(c_id) in ("ci",):
                            V("double_checkin", "driver connection %d was checked in twice for one checkout (fault=%s)" % (c_id, fault))
                        if c_id >= 0:
                            last[c_id] = "ci"
                    elif kind in ("inv", "cd"):
                        last[c_id] = kind
                for c_id, k in last.items():
                    if k == "co" and c_id >= 0 and not sim.conns[c_id].closed:
                        V("never_checked_in", "driver connection %d was checked out and never returned nor discarded (fault=%s)" % (c_id, fault))
                for c in sim.conns:
                    if not c.closed and c._conn.in_transaction:
                        V("open_transaction_on_pooled_connection", "idle pooled driver connection %d still has an open transaction "
                          "(fault=%s)" % (c.id, fault))
                for w in wlist:
                    msg = str(w.message)
                    if "was never awaited" in msg or "Double checkin" in msg:
                        V("runtime_warning", "warning during the run: %s" % msg[:100])
                # later operations on the engine work, within bounded virtual time
                try:
                    async with asyncio.timeout(120):
                        async with aeng.connect() as c2:
                            await c2.execute(text("insert into item (id, name) values (9999, 'post')"))
                            await c2.commit()
                            rows = [r[0] for r in (await c2.execute(text("select id from item order by id"))).all()]
                except Exception as e:       # noqa
                    V("engine_unusable_after_fault", "connect/insert/select after the fault raised %s: %s (fault=%s)"
                      % (type(e).__name__, str(e)[:80], fault))
                    rows = None
                if rows is not None and fault is not None:
                    present = set(rows) - {9999}
                    ids_acked = {v for v in acked if v > 0}
                    ids_deleted = {-v for v in acked if v < 0}
                    maybe = {abs(v) for v in inflight}
                    missing = (ids_acked - ids_deleted) - present - maybe
                    extra = present - ids_acked - maybe
                    if missing:
                        V("committed_rows_lost", "rows %s were committed (commit returned) but are absent after the fault (fault=%s)"
                          % (sorted(missing), fault))
                    if extra:
                        V("uncommitted_rows_present", "rows %s of a transaction that never reached commit are present after the fault "
                          "(fault=%s)" % (sorted(extra), fault))
                info["rows"] = rows
                await aeng.dispose()

            loop.run_until_complete(main())
        if case["kind"] == "equiv":
            spath = os.path.join(_workdir(), "s.db")
            _mkdb(spath)
            seng = create_engine("sqlite:///" + spath, poolclass=_m["QP"], pool_size=case["pool_size"], max_overflow=0,
                                 connect_args={"isolation_level": None})

            @event.listens_for(seng, "begin")
            def do_begin_sync(conn):
                conn.exec_driver_sql("BEGIN")
            try:
                sacked = set()
                run_sync(seng, case["tasks"][0], sync_out, sacked)
                with seng.connect() as c:
                    srows = [r[0] for r in c.execute(text("select id from item order by id")).all()]
                sco = seng.pool.checkedout()
            finally:
                seng.dispose()
            a_out = outs[0]
            if a_out != sync_out:
                for bi, (x, y) in enumerate(zip(a_out, sync_out)):
                    if x != y:
                        V("async_differs_from_sync", "block %d (%s): async API returned %s, sync API %s"
                          % (bi, case["tasks"][0][bi]["kind"], repr(x)[:120], repr(y)[:120]))
                        break
                else:
                    V("async_differs_from_sync", "async and sync runs produced different numbers of block results")
            elif info.get("rows") is not None and [r for r in info["rows"] if r != 9999] != srows:
                V("async_differs_from_sync", "final table contents differ: async %s, sync %s" % (info["rows"], srows))
            if sco != 0:
                V("checkedout_nonzero", "sync reference pool reports %d checked out" % sco)
    except LS.SimDeadlock as e:
        V("deadlock", "virtual loop ran out of events: %s (fault=%s)" % (e, fault))
    finally:
        try:
            loop.close()
        except Exception:
            pass
        asyncio.set_event_loop(None)
        for c in sim.conns:
            c.stop()
        gc.collect()
    bump("kind_" + case["kind"])
    bump("io_calls", sim.io_count)
    bump("vtime_us", int(loop.time() * 1e6))
    bump("steps", info["victim_steps"])
    if delivered["at_checkedout"]:
        bump("probe:cancel_while_connection_checked_out")
    if task_status.get("victim") == "CancelledError":
        bump("probe:victim_cancelled")
    nontriv = (case["kind"] == "equiv" and sum(len(b) for b in outs[0]) >= 3) or bool(fault and (delivered["at_checkedout"] is not None or fault[0] == "timeout"))
    return {"viol": viol, "digest": digest_of([case["tasks"], case["faults"], case["lat_seed"], outs, task_status, info.get("rows")]),
            "nontrivial": nontriv, "counters": counters, "sets": {"abstract_states": [[case["kind"], len(case["tasks"]), len(sim.conns)]]},
            "trace": [outs, task_status], "victim_steps": info["victim_steps"], "victim_vtime": info["victim_vtime"]}
