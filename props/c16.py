"""C16 — schema_translate_map renders the mapped schemas regardless of cache state.

cachesim: a subject engine with a small shared compiled cache executes constructs built on symbolic schemas (None / "a") under a
per-execution schema_translate_map (statement-level execution option, Connection-level option, or an option-engine); a reference
engine with the cache disabled executes the *same construct rebuilt on Table objects that carry the translated schema literally*,
with no map.  SQLite schemas are ATTACHed in-memory databases (main, s1, s2, a) whose same-named tables hold different rows.
Per execution the cursor-level SQL text and rows are compared, after DML/DDL the contents of every schema.
"""
import gc
import random
import warnings

from simfw.core import digest_of

ID = "C16"
LEVEL = "exploration"
ENGINE = "cachesim"
TECHNIQUE = ("deterministic simulation: seeded execution histories with differing schema_translate_maps through one shared compiled cache "
             "(seeded small capacity) vs an uncached reference that uses literally-schema'd tables; SQL text, rows and per-schema table "
             "contents compared after every execution")
LEVEL_TEXT = ("seeded search over histories of SELECT / INSERT (single, executemany, RETURNING, insertmanyvalues with a schema-qualified scalar "
              "subquery in VALUES) / UPDATE / DELETE / CREATE+DROP TABLE executed under 6 different maps that share cache entries, applied "
              "per statement, per connection or per engine.  Sampled.")
LEVEL_NOTE = "SQLite only (ATTACHed schemas); single caller thread; reference = literal-schema rebuild executed with query_cache_size=0"
TIERS = {
    "quick": {"runs": 5000, "secs": 30},
    "thorough": {"runs": 150000, "secs": 420, "hashseeds": [0, 1]},
}
SHRINK = ["hist"]
MIN_BUDGET = 150
RULE = ("history = list of (construct family, sub-seed, map, how the map is applied) + cache capacity; distinct = digest of history and outcomes; "
        "non-trivial = the same construct family was executed under >=2 different maps")
COMPONENTS_REAL = ["schema translate rendering (sql/compiler.py, engine/default.py incl. insertmanyvalues)", "compiled cache + cache keys",
                   "Connection/Engine execution options", "DDL compiler", "SQLite via stdlib sqlite3"]
COMPONENTS_STUB = ["reference engine without cache on a twin database with literally named schemas"]
ASSUMPTIONS = ["pure-Python implementations of the _cy modules ran"]

_m = {}
# successive maps that share a compiled cache must be consistent about the None key (the library raises otherwise and asks for
# exactly that), so each history draws its maps from one of two worlds; index 0 (no map at all) belongs to both
MAPS = [None, {"a": "s1"}, {"a": "s2"}, {"a": "a"}, {None: "s1"}, {"a": "s2", None: "s1"}, {None: "s2", "a": "s1"}, {None: "s1", "a": "a"}]
WORLD = {False: [0, 1, 2, 3], True: [0, 4, 5, 6, 7]}
SCHEMAS = [None, "s1", "s2", "a"]


def setup():
    from sqlalchemy import MetaData, Table, Column, Integer, String, create_engine, event, select, func, exc, insert
    from sqlalchemy.schema import CreateTable, DropTable
    from sqlalchemy.pool import StaticPool
    _m.update(MetaData=MetaData, Table=Table, Column=Column, Integer=Integer, String=String, create_engine=create_engine, event=event,
              select=select, func=func, exc=exc, StaticPool=StaticPool, CreateTable=CreateTable, DropTable=DropTable)
    _m["tabs"] = {}
    for sch in SCHEMAS:
        md = MetaData()
        _m["tabs"][sch] = {
            "t": Table("t", md, Column("id", Integer, primary_key=True), Column("x", Integer), Column("y", Integer), schema=sch),
            "cfg": Table("cfg", md, Column("v", Integer), schema=sch),
            "tmp": Table("tmp", md, Column("k", Integer), schema=sch),
        }
    # warm-up
    run_case({"cache": 5, "hist": [["select", 1, 1, "stmt"], ["imv", 2, 2, "conn"], ["ddl", 3, 3, "engine"]]})
    run_case({"cache": 5, "hist": [["select_join", 1, 4, "stmt"], ["update", 2, 5, "conn"], ["delete", 3, 6, "engine"]]})
    gc.disable()
    gc.collect()
    gc.freeze()


def gen_case(rng, tier):
    fams = ["select", "select", "select_join", "insert", "imv", "imv", "executemany", "update", "delete", "ddl"]
    hist = []
    cur = rng.choice(fams)
    world = WORLD[rng.random() < 0.5]
    for _ in range(rng.randint(6, 30)):
        if rng.random() > 0.55:
            cur = rng.choice(fams)
        hist.append([cur, rng.getrandbits(20), rng.choice(world), rng.choice(["stmt", "stmt", "conn", "engine"])])
    return {"cache": rng.choice([1, 2, 5, 500]), "hist": hist}


def _engine(cache):
    eng = _m["create_engine"]("sqlite://", poolclass=_m["StaticPool"], query_cache_size=cache)

    @_m["event"].listens_for(eng, "connect")
    def attach(dbc, rec):
        for i, s in enumerate(["s1", "s2", "a"]):
            dbc.execute("ATTACH DATABASE ':memory:' AS %s" % s)
        for k, s in enumerate(["main", "s1", "s2", "a"]):
            dbc.execute("create table %s.t (id integer primary key, x integer, y integer)" % s)
            dbc.execute("create table %s.cfg (v integer)" % s)
            dbc.execute("insert into %s.cfg values (%d)" % (s, 100 * (k + 1)))
            for j in range(3):
                dbc.execute("insert into %s.t (id, x, y) values (%d, %d, %d)" % (s, j + 1, 10 * (k + 1) + j, k))
        dbc.commit()
    return eng


def _translate(sch, mp):
    if mp is None:
        return sch
    return {k: v for k, v in mp.items() if k != "_none"}.get(sch, sch)


def build(fam, sub, T):
    """T(symbolic_schema) -> dict of Table objects to build on"""
    rng = random.Random(sub)
    select, func = _m["select"], _m["func"]
    sym = rng.choice([None, "a"])
    t, cfg, tmp = T(sym)["t"], T(sym)["cfg"], T(sym)["tmp"]
    other = T("a" if sym is None else None)
    if fam == "select":
        v = rng.choice([0, 11, 21, 31])
        return select(t.c.id, t.c.x).where(t.c.x >= v).order_by(t.c.id), None
    if fam == "select_join":
        return (select(t.c.x, other["t"].c.x, cfg.c.v).select_from(t.join(other["t"], t.c.id == other["t"].c.id)).join(cfg, cfg.c.v > 0)
                .order_by(t.c.id), None)
    if fam == "insert":
        return t.insert().values(x=rng.randint(500, 600), y=7), None
    if fam == "executemany":
        return t.insert(), [{"x": rng.randint(700, 800), "y": i} for i in range(rng.randint(2, 4))]
    if fam == "imv":
        # insertmanyvalues: executemany + RETURNING, with a schema-qualified scalar subquery inside VALUES
        sub_q = select(cfg.c.v).scalar_subquery()
        stmt = t.insert().values(y=sub_q).returning(t.c.x, t.c.y)
        return stmt, [{"x": rng.randint(900, 999) + i} for i in range(rng.randint(2, 4))]
    if fam == "update":
        return t.update().where(t.c.id == rng.randint(1, 3)).values(y=t.c.y + select(func.max(cfg.c.v)).scalar_subquery()), None
    if fam == "delete":
        return t.delete().where(t.c.x > 400).where(t.c.y == rng.randint(0, 8)), None
    if fam == "ddl":
        return ("ddl", tmp), None
    raise ValueError(fam)


def run_case(case):
    viol = []
    counters = {}
    trace = []

    def bump(k, n=1):
        counters[k] = counters.get(k, 0) + n

    def V(oracle, sig, **detail):
        if not viol:
            viol.append({"oracle": oracle, "sig": sig, "detail": detail})

    with warnings.catch_warnings():
        warnings.simplefilter("ignore")
        subj, ref = _engine(case["cache"]), _engine(0)
        caps = {"s": [], "r": []}
        for key, eng in (("s", subj), ("r", ref)):
            @_m["event"].listens_for(eng, "before_cursor_execute")
            def cap(conn, cursor, statement, parameters, context, executemany, key=key):
                caps[key].append(statement)
        fam_maps = {}
        try:
            for i, (fam, sub, mi, how) in enumerate(case["hist"]):
                mp = dict(MAPS[mi]) if MAPS[mi] is not None else None      # the library adds a "_none" key to the dict it is given
                fam_maps.setdefault(fam, set()).add(mi)
                outs = []
                sqls = []
                for key in ("s", "r"):
                    del caps[key][:]
                    if key == "s":
                        T = lambda sym: _m["tabs"][sym]
                        eng = subj
                    else:
                        T = lambda sym: _m["tabs"][_translate(sym, mp)]
                        eng = ref
                    stmt, params = build(fam, sub, T)
                    opts = {}
                    e2 = eng
                    mp = dict(MAPS[mi]) if MAPS[mi] is not None else None
                    if key == "s" and mp is not None:
                        if how == "engine":
                            e2 = eng.execution_options(schema_translate_map=mp)
                        elif how == "stmt":
                            opts = {"schema_translate_map": mp}
                    try:
                        with e2.connect() as c:
                            if key == "s" and mp is not None and how == "conn":
                                c = c.execution_options(schema_translate_map=mp)
                            if isinstance(stmt, tuple):
                                tb = stmt[1]
                                c.execute(_m["CreateTable"](tb), execution_options=opts)
                                c.execute(tb.insert().values(k=sub % 97), execution_options=opts)
                                got = [tuple(r) for r in c.execute(_m["select"](tb.c.k), execution_options=opts).all()]
                                c.execute(_m["DropTable"](tb), execution_options=opts)
                                outs.append(("rows", got))
                            else:
                                r = c.execute(stmt, params, execution_options=opts) if params is not None else c.execute(stmt, execution_options=opts)
                                outs.append(("rows", sorted(tuple(x) for x in r.all())) if r.returns_rows else ("rowcount", r.rowcount))
                            c.commit()
                    except Exception as e:     # noqa
                        outs.append(("raised", type(e).__name__ + ": " + str(e).split("\n")[0][:90]))
                    sqls.append(list(caps[key]))
                trace.append([i, fam, mi, how, outs[0][0]])
                if outs[0] != outs[1]:
                    V("wrong_result_under_translate_map", "%s under map %s (%s-level, cache capacity %d): got %s, literal-schema reference %s"
                      % (fam, mp, how, case["cache"], repr(outs[0])[:150], repr(outs[1])[:150]), op=i)
                elif sqls[0] != sqls[1]:
                    V("wrong_sql_under_translate_map", "%s under map %s (%s-level): emitted %s, literal-schema reference %s"
                      % (fam, mp, how, [s[:110] for s in sqls[0]], [s[:110] for s in sqls[1]]), op=i)
                else:
                    # every schema's table contents agree
                    snap = []
                    for eng in (subj, ref):
                        with eng.connect() as c:
                            snap.append([c.exec_driver_sql("select id, x, y from %s.t order by id" % s).all() for s in ("main", "s1", "s2", "a")])
                    if snap[0] != snap[1]:
                        V("wrong_schema_written", "after %s under map %s the tables differ from the literal-schema reference: %s vs %s"
                          % (fam, mp, repr(snap[0])[:160], repr(snap[1])[:160]), op=i)
                if viol:
                    break
        finally:
            subj.dispose()
            ref.dispose()
            gc.collect()
    bump("executions", len(trace))
    bump("cache_capacity_%d" % case["cache"])
    for t in trace:
        bump("family:" + t[1])
        bump("map_applied_at:" + t[3])
    multi = any(len(v) >= 2 for v in fam_maps.values())
    if multi:
        bump("probe:family_under_two_maps")
    return {"viol": viol, "digest": digest_of([case["cache"], case["hist"], trace]), "nontrivial": multi, "counters": counters,
            "sets": {"families": sorted(fam_maps)}, "trace": trace[:40]}
