"""C48 — pending changes survive the application dropping its references (ormsim)."""
from props import _orm

_orm.define(globals(), "C48", ("C48",), "dropped references",
            "deterministic simulation: seeded ORM session histories in which the application lets go of objects the session holds (modified, "
            "pending, delete()-marked and clean ones; after whole-object or attribute-level expiry, refresh, savepoints) and the collector "
            "runs as a scheduled operation (gc disabled otherwise) before the flush; the probed rows must carry every change made before the "
            "drop, an object with a pending change must still be alive at flush time, and a clean persistent object that nothing refers to "
            "must have left the weak-referencing identity map",
            "seeded search; garbage collection and 'drop the last reference' are scheduled operations of the history, placed right before a "
            "flush or commit.  Sampled.",
            "release of clean objects is asserted only for objects no other live object of the session refers to (loaded relationship values, "
            "committed originals, queued backref mutations)",
            weights={"drop": 12, "gc": 3, "set": 8, "mk": 6, "mk_child": 5, "delete": 3, "expire_attr": 4, "expire": 2, "refresh": 2, "read": 2,
                     "set_parent": 3, "k_rename": 2, "mut_data": 3, "m_ops": 4, "begin_nested": 1, "sp_rollback": 1, "sp_commit": 1, "commit": 3,
                     "rollback": 2, "requery": 2, "lazy": 2, "get": 2, "flush": 1, "tag_add": 2})
