"""C45 — Session.merge copies state onto the session's single instance (ormsim)."""
from props import _orm

def _shape(rng, pool, cfg=None):
    """merge while the session holds unflushed work that moves identities and nothing else: a delete (or a key change) of the very
    identity that is merged next"""
    if rng.random() > 0.25:
        return None
    r = lambda: rng.randrange(64)
    prog = [["mk", rng.choice((0, 1, 2, 3, 6)), 1 + 3 * rng.randrange(20)] for _ in range(rng.randint(1, 3))]
    prog.append(["commit", 0, 0])
    if rng.random() < 0.5:
        prog.append([rng.choice(("requery", "read", "get")), r(), r()])
    prog.append([rng.choice(("delete", "delete", "k_rename", "set")), r(), r()])
    for _ in range(rng.randint(1, 3)):
        prog.append(["merge", r(), 6 * rng.randrange(10)])
    prog.append([rng.choice(("flush", "commit")), 0, 0])
    prog += [[rng.choice(pool), r(), r()] for _ in range(rng.randint(0, 6))]
    return prog


_orm.define(globals(), "C45", ("C45",), "merge",
            "deterministic simulation: seeded ORM session histories in which transient copies (some scalars, mutable values, a one-to-many "
            "collection reached by merge cascade), clean detached instances read by a second session (load=False) and brand-new identities are "
            "merged while the session's own instance is present, expired, absent or detached; the returned instance must be the session's "
            "single instance for the identity, carry every value loaded on the given object, leave the given object outside the session, be "
            "unchanged by a second merge, and with load=False emit no SQL and flag no change; merging an identity whose instance is marked for "
            "deletion (not flushed, autoflush on) must give a new pending instance as if flush() had run first; the flush oracles of C30 then "
            "judge the rows",
            "seeded search over merge mixed with flush / commit / rollback / expire / expunge / close, autoflush on and off.  Sampled.",
            "only merge cascades along A.bs (and back through B.a) are exercised; merging onto a primary key changed in memory is not generated",
            weights={"merge": 14, "expunge": 2, "close": 2, "expire": 2, "commit": 3, "rollback": 2, "mk": 6, "mk_child": 5, "set": 3, "flush": 3,
                     "requery": 2, "mut_data": 2, "delete": 1, "m_ops": 3, "m_reload": 4, "set_k": 1}, shape=_shape)
