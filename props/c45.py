"""C45 — Session.merge copies state onto the session's single instance (ormsim)."""
from props import _orm

_orm.define(globals(), "C45", ("C45",), "merge",
            "deterministic simulation: seeded ORM session histories in which transient copies (some scalars, mutable values, a one-to-many "
            "collection reached by merge cascade), clean detached instances read by a second session (load=False) and brand-new identities are "
            "merged while the session's own instance is present, expired, absent or detached; the returned instance must be the session's "
            "single instance for the identity, carry every value loaded on the given object, leave the given object outside the session, be "
            "unchanged by a second merge, and with load=False emit no SQL and flag no change; the flush oracles of C30 then judge the rows",
            "seeded search over merge mixed with flush / commit / rollback / expire / expunge / close, autoflush on and off.  Sampled.",
            "only merge cascades along A.bs (and back through B.a) are exercised; merging onto a primary key changed in memory is not generated",
            weights={"merge": 14, "expunge": 2, "close": 2, "expire": 2, "commit": 3, "rollback": 2, "mk": 6, "mk_child": 5, "set": 3, "flush": 3,
                     "requery": 2, "mut_data": 2, "delete": 1, "m_ops": 3, "m_reload": 4, "set_k": 1})
