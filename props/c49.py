"""C49 — Mutable column values propagate in-place changes to the database (ormsim)."""
from props import _orm

_orm.define(globals(), "C49", ("C49",), "mutable values",
            "deterministic simulation: seeded ORM session histories over a mapped class with one attribute per Mutable flavour (MutableDict on "
            "JSON, MutableList and MutableSet on PickleType, a MutableComposite) in which every mutating method, augmented assignment, plain "
            "assignment (coercion) and nested replacement is applied between flushes, commits, rollbacks, expiry, full and partial refresh, "
            "populate_existing queries, pickle round trips of the parent (re-add and merge), merge of copies and scheduled garbage collection; "
            "each in-place change of a clean persistent parent must flag it (session.dirty) and after every flush the decoded column values "
            "probed on the session's connection must equal the in-memory values",
            "seeded search; the flag is checked right after each mutation, the stored value after each flush / commit.  Sampled.",
            "nested plain containers inside a Mutable value are not tracked (documented) and are only replaced through the tracked parent",
            weights={"m_ops": 22, "m_reload": 8, "mut_data": 4, "mut_items": 4, "flush": 5, "commit": 4, "rollback": 2, "expire": 2, "expire_all": 1,
                     "refresh": 2, "populate_existing": 2, "drop": 2, "gc": 1, "mk": 3, "begin_nested": 1, "sp_rollback": 1, "close": 1,
                     "merge": 1, "requery": 2})
