"""C23 — Connection transactions and savepoints have nested-transaction semantics.

Sequential history simulation on real SQLite (tmpfs file) through the fault-capable proxy: a generated sequence of
begin / begin_nested / execute / commit / rollback / close on *any* handle (out-of-order use included), context-manager
entry/exit (normal and by exception), use of handles after their block, connection close/reopen.  An independent raw
sqlite3 observer connection reads the table after every operation and is compared with a reference model
(stack of value sets).  Derived cases inject an error at each execute / COMMIT of the clean run.
"""
import gc
import os
import shutil
import sqlite3
import tempfile
import warnings

from simfw import sqlproxy as SP
from simfw.core import digest_of

ID = "C23"
LEVEL = "exploration"
ENGINE = "dbsim"
TECHNIQUE = ("deterministic simulation: seeded transaction/savepoint/context-manager histories on real SQLite behind a fault-injecting "
             "DBAPI proxy, compared op by op with a nested-transaction reference model through an independent observer connection; "
             "error injection at every execute/COMMIT of each history")
LEVEL_TEXT = ("seeded search over operation histories (with out-of-order handle use and context managers) checked against an executable "
              "reference model after every operation; plus one rerun per execute/COMMIT call with an injected driver error. Sampled.")
LEVEL_NOTE = ("SQLite only (autocommit=False driver mode and the documented isolation_level=None + BEGIN-event recipe); flags are asserted "
              "only while handles were used in order, for out-of-order histories only data and raise-instead-of-act are asserted; "
              "rollback()/close() on an ended handle is accepted as a no-op")
TIERS = {
    "quick": {"runs": 6000, "secs": 30},
    "thorough": {"runs": 400000, "secs": 420, "hashseeds": [0, 1]},
}
SHRINK = ["prog", "faults"]
MIN_BUDGET = 200
RULE = ("history = seeded op list over a stack of transaction handles on one Connection (+reopen); distinct = digest of ops and outcomes; "
        "non-trivial = >=1 commit or rollback of a transaction that had written a row")
COMPONENTS_REAL = ["sqlalchemy.engine.base.Connection/RootTransaction/NestedTransaction", "sqlalchemy.engine.util.TransactionalContext",
                   "pysqlite dialect", "stdlib sqlite3 + SQLite on tmpfs", "QueuePool"]
COMPONENTS_STUB = ["DBAPI proxy module (fault points, side channel)", "reference model (stack of value sets)"]
ASSUMPTIONS = ["observer is a separate raw sqlite3 connection on the same file", "pure-Python implementations of the _cy modules ran"]

_m = {}
_dir = [None]



def _workdir():
    """one directory per worker process: SQLite creates and deletes journal files all the time, and sixteen workers doing that in one
    tmpfs directory serialise on it"""
    d = os.path.join(_dir[0], "p%d" % os.getpid())
    os.makedirs(d, exist_ok=True)
    return d

def setup():
    from sqlalchemy import create_engine, text, exc, event
    from sqlalchemy.pool import QueuePool
    _m.update(create_engine=create_engine, text=text, exc=exc, event=event, QueuePool=QueuePool)
    _dir[0] = tempfile.mkdtemp(prefix="verif-c23-", dir="/dev/shm" if os.path.isdir("/dev/shm") else None)
    import atexit
    atexit.register(lambda: shutil.rmtree(_dir[0], ignore_errors=True))
    gc.disable()
    gc.collect()
    gc.freeze()


OPS = ["begin", "begin_nested", "begin_nested", "exec", "exec", "exec", "exec", "h_commit", "h_commit", "h_rollback", "h_rollback",
       "h_close", "c_commit", "c_rollback", "c_close", "enter", "enter_nested", "exit", "exit", "exit_exc"]


def gen_case(rng, tier):
    n = rng.randint(5, 25)
    # swarm: how often handles are picked out of order, context-manager density
    ooo = rng.choice([0.0, 0.0, 0.15, 0.4])
    prog = []
    for _ in range(n):
        op = rng.choice(OPS)
        arg = rng.randrange(64)
        inorder = rng.random() >= ooo
        prog.append([op, arg, 1 if inorder else 0])
    return {"mode": rng.choice(["autocommit_false", "autocommit_false", "begin_event"]), "prog": prog, "faults": []}


def derive_cases(case, res):
    seen = set()
    for kind, head, cid, n in res["points"]:
        if kind == "execute" and head and (head.startswith("INSERT") or head.startswith("SAVEPOINT") or head.startswith("RELEASE")
                                             or head.startswith("ROLLBACK TO")):
            if head.startswith("INSERT"):
                key = ("execute:INSERT", None)
            else:
                continue
        elif kind == "commit":
            key = ("commit", n)
        elif kind == "execute" and head == "BEGIN":
            # the documented SQLite recipe emits BEGIN from a "begin" event handler: let that statement fail
            nb = sum(1 for k2, h2, _c, n2 in res["points"] if k2 == "execute" and h2 == "BEGIN" and n2 <= n)
            if ("execute:BEGIN", nb) not in seen:
                seen.add(("execute:BEGIN", nb))
                c = dict(case)
                c["faults"] = [["execute:BEGIN", nb, "error"]]
                yield c
            continue
        else:
            continue
        if key[0] == "execute:INSERT":
            k = res["insert_count"]
            for i in range(1, k + 1):
                if ("execute:INSERT", i) not in seen:
                    seen.add(("execute:INSERT", i))
                    c = dict(case)
                    c["faults"] = [["execute:INSERT", i, "error"]]
                    yield c
        else:
            if key not in seen:
                seen.add(key)
                c = dict(case)
                c["faults"] = [["commit", n, "error"]]
                yield c


class H:
    """model of one transaction handle"""
    __slots__ = ("kind", "state", "values", "label", "zombie")

    def __init__(self, kind, label):
        self.kind = kind          # root | sp
        self.state = "active"     # active | ended | failed (root whose COMMIT raised: needs rollback)
        self.values = set()
        self.label = label
        self.zombie = False       # savepoint destroyed in the database by an out-of-order op on an outer one


def run_case(case):
    create_engine, text, exc, event = _m["create_engine"], _m["text"], _m["exc"], _m["event"]
    path = os.path.join(_workdir(), "t.db")
    for suffix in ("", "-journal", "-wal", "-shm"):
        try:
            os.unlink(path + suffix)
        except OSError:
            pass
    obs = sqlite3.connect(path, timeout=0, isolation_level=None)
    obs.execute("create table t (v integer primary key)")
    plan = SP.Plan(case["faults"])
    mod = SP.make_module(plan)
    if case["mode"] == "autocommit_false":
        eng = create_engine("sqlite:///" + path, module=mod, connect_args={"autocommit": False, "timeout": 0},
                            poolclass=_m["QueuePool"], pool_size=1, max_overflow=0)
    else:
        eng = create_engine("sqlite:///" + path, module=mod, connect_args={"timeout": 0, "isolation_level": None},
                            poolclass=_m["QueuePool"], pool_size=1, max_overflow=0)

        @event.listens_for(eng, "begin")
        def do_begin(conn):
            conn.exec_driver_sql("BEGIN")

    viol = []
    trace = []
    counters = {}

    def bump(k, n=1):
        counters[k] = counters.get(k, 0) + n

    def V(oracle, sig, **detail):
        if oracle == "unexpected_raise" and not strict[0]:
            # after out-of-order handle use SQLAlchemy's bookkeeping is undefined by the documentation and may refuse
            # operations loudly; only "never act wrongly on the data" is asserted from there on
            bump("probe:op_refused_after_out_of_order_use")
            return
        if not viol:
            viol.append({"oracle": oracle, "sig": sig, "detail": detail})

    def seen():
        return set(r[0] for r in obs.execute("select v from t"))

    # ---- model
    committed = set()
    handles = []          # every handle ever created: (H, real transaction object)
    stack = []            # database-level stack of live scopes: [root, sp, sp, ...]   (H objects)
    cms = []              # entered context managers (H, real)
    strict = [True]       # flags asserted only while handles were used in order
    closed = [False]
    next_val = [0]
    faulted = [False]

    def root():
        return stack[0] if stack else None

    def end_all():
        for h in stack:
            h.state = "ended"
        for h, _r in handles:
            if h.state == "active":
                h.state = "ended"
        del stack[:]

    def m_commit_root():
        for h in stack:
            committed.update(h.values)
        end_all()

    def m_rollback_root():
        end_all()

    def m_release(h):
        i = stack.index(h)
        if i != len(stack) - 1:
            strict[0] = False
            bump("probe:out_of_order_release")
        parent = stack[i - 1]
        for x in stack[i:]:
            parent.values.update(x.values)
            if x is not h:
                x.zombie = True
        h.state = "ended"
        del stack[i:]

    def m_rollback_to(h):
        i = stack.index(h)
        if i != len(stack) - 1:
            strict[0] = False
            bump("probe:out_of_order_rollback")
        for x in stack[i:]:
            if x is not h:
                x.zombie = True
        h.state = "ended"
        del stack[i:]

    def guard():
        """innermost entered context manager whose transaction has ended inside the block"""
        return bool(cms) and cms[-1][0].state != "active"

    conn = eng.connect()

    def pick(arg, inorder):
        live = [(h, r) for h, r in handles]
        if not live:
            return None
        if inorder:
            act = [(h, r) for h, r in handles if h.state == "active" and not h.zombie]
            if act:
                return act[-1]
        return live[arg % len(live)]

    ERR = (exc.SQLAlchemyError, AssertionError)

    try:
        with warnings.catch_warnings():
            warnings.simplefilter("ignore")
            for i, (op, arg, inorder) in enumerate(case["prog"]):
                out = "ok"
                fired_before = len(plan.fired)
                raised = None
                try:
                    # ------------------------------------------------------------------ begin / begin_nested / enter
                    if op in ("begin", "enter", "begin_nested", "enter_nested"):
                        nested = op.endswith("nested")
                        will_raise = closed[0] or guard() or (not nested and root() is not None) or \
                            (root() is not None and root().state == "failed")
                        try:
                            real = conn.begin_nested() if nested else conn.begin()
                        except ERR as e:
                            raised = e
                            if not will_raise and not len(plan.fired) > fired_before:
                                V("unexpected_raise", "%s raised %s where the model allows it" % (op, type(e).__name__), op=i)
                            out = "raised:" + type(e).__name__
                        else:
                            if will_raise:
                                V("acted_instead_of_raising", "%s succeeded although the transaction scope had ended / already begun" % op,
                                  op=i, closed=closed[0], guard=guard())
                            if nested and root() is None:
                                r = H("root", "auto")
                                stack.append(r)          # autobegin
                            h = H("sp" if nested else "root", "h%d" % len(handles))
                            stack.append(h)
                            handles.append((h, real))
                            if op.startswith("enter"):
                                real.__enter__()
                                cms.append((h, real))
                                bump("probe:context_manager_entered")
                    # ------------------------------------------------------------------ execute
                    elif op == "exec":
                        next_val[0] += 1
                        v = next_val[0]
                        will_raise = closed[0] or guard() or (root() is not None and root().state == "failed")
                        try:
                            conn.execute(text("insert into t (v) values (:v)"), {"v": v})
                        except ERR as e:
                            raised = e
                            out = "raised:" + type(e).__name__
                            if len(plan.fired) > fired_before:
                                # injected driver error: statement had no effect; autobegin happened unless it was the BEGIN that failed
                                if root() is None and not closed[0] and plan.fired[-1][0] != "execute:BEGIN":
                                    stack.append(H("root", "auto"))
                            elif not will_raise:
                                V("unexpected_raise", "execute raised %s where the model allows it: %s" % (type(e).__name__, str(e)[:100]),
                                  op=i)
                        else:
                            if will_raise:
                                V("acted_instead_of_raising", "execute succeeded on an ended transaction scope (closed=%s, ended inside "
                                  "context manager=%s)" % (closed[0], guard()), op=i)
                            if root() is None:
                                stack.append(H("root", "auto"))
                            stack[-1].values.add(v)
                    # ------------------------------------------------------------------ handle ops
                    elif op in ("h_commit", "h_rollback", "h_close"):
                        p = pick(arg, inorder)
                        if p is None:
                            out = "skip"
                        else:
                            h, real = p
                            before = seen()
                            try:
                                getattr(real, op[2:])()
                            except ERR as e:
                                raised = e
                                out = "raised:" + type(e).__name__
                            except sqlite3.Error as e:
                                raised = e
                                out = "raised-dbapi:" + type(e).__name__
                            injected = len(plan.fired) > fired_before
                            if h.state == "failed" and not injected:
                                if op == "h_commit":
                                    if raised is None:
                                        V("acted_instead_of_raising", "commit() of a transaction whose COMMIT had failed returned normally", op=i)
                                else:
                                    m_rollback_root()
                            elif h.state == "active" and not h.zombie and not injected and h.kind == "sp" and guard() and raised is not None:
                                # savepoint statements are refused while an inner with-block whose transaction ended has not been
                                # left yet; SQLAlchemy drops the handle, the database keeps the savepoint: its rows share the
                                # fate of the enclosing scope from here on
                                k = stack.index(h)
                                stack[k - 1].values.update(h.values)
                                h.state = "ended"
                                del stack[k]
                                strict[0] = False
                                bump("probe:savepoint_op_refused_inside_ended_block")
                            elif h.state == "active" and not h.zombie and not injected and not strict[0] and raised is not None:
                                # handles were used out of order earlier: SQLAlchemy's bookkeeping is documented-undefined from
                                # there on and may refuse an operation; a refused operation must simply not have acted on the data
                                k = stack.index(h)
                                if k > 0:
                                    stack[k - 1].values.update(h.values)
                                    h.state = "ended"
                                    del stack[k]
                                    bump("probe:op_refused_after_out_of_order_use")
                                else:
                                    V("unexpected_raise", "%s of the active root transaction raised %s" % (op[2:], type(raised).__name__), op=i)
                            elif h.state == "active" and not h.zombie and not injected:
                                if op == "h_commit":
                                    if h.kind == "root":
                                        if raised is not None:
                                            V("unexpected_raise", "commit of the active root transaction raised %s" % type(raised).__name__, op=i)
                                        m_commit_root()
                                    else:
                                        if raised is not None:
                                            V("unexpected_raise", "release of an active savepoint raised %s" % type(raised).__name__, op=i)
                                        m_release(h)
                                else:
                                    if raised is not None:
                                        V("unexpected_raise", "%s of an active transaction raised %s" % (op[2:], type(raised).__name__), op=i)
                                    if h.kind == "root":
                                        m_rollback_root()
                                    else:
                                        m_rollback_to(h)
                            elif injected:
                                faulted[0] = True
                                if op == "h_commit" and h.kind == "root" and h.state == "active":
                                    # COMMIT failed: nothing published; the transaction needs rollback() before further use
                                    for x in stack[1:]:
                                        x.state = "ended"
                                    for hh, _r in handles:
                                        if hh.state == "active" and hh is not h:
                                            hh.state = "ended"
                                    h.state = "failed"
                                    del stack[1:]
                                    if stack and stack[0] is not h:
                                        stack[0].state = "failed"
                                else:
                                    strict[0] = False
                            else:
                                # ended handle (or zombie savepoint): must raise or be a no-op; never act
                                if op == "h_commit" and raised is None:
                                    V("acted_instead_of_raising", "commit() on an ended transaction handle returned normally", op=i,
                                      handle=h.label, state=h.state, zombie=h.zombie)
                                if h.zombie:
                                    h.zombie = False
                                    h.state = "ended"
                                    strict[0] = False
                                bump("probe:op_on_ended_handle")
                    # ------------------------------------------------------------------ connection-level
                    elif op in ("c_commit", "c_rollback"):
                        r = root()
                        will_raise = closed[0] or (op == "c_commit" and r is not None and r.state == "failed")
                        try:
                            getattr(conn, op[2:])()
                        except ERR as e:
                            raised = e
                            out = "raised:" + type(e).__name__
                        injected = len(plan.fired) > fired_before
                        if injected:
                            faulted[0] = True
                            if op == "c_commit" and r is not None and r.state == "active":
                                for x in stack[1:]:
                                    x.state = "ended"
                                for hh, _r in handles:
                                    if hh.state == "active" and hh is not r:
                                        hh.state = "ended"
                                del stack[1:]
                                r.state = "failed"
                        elif raised is not None:
                            if not will_raise:
                                V("unexpected_raise", "Connection.%s raised %s" % (op[2:], type(raised).__name__), op=i)
                        elif not closed[0]:
                            if r is not None:
                                if op == "c_commit" and r.state == "active":
                                    m_commit_root()
                                elif op == "c_rollback":
                                    m_rollback_root()
                    elif op == "c_close":
                        if closed[0]:
                            conn = eng.connect()       # reopen
                            closed[0] = False
                            del cms[:]
                            out = "reopened"
                        else:
                            conn.close()
                            m_rollback_root()
                            closed[0] = True
                            del cms[:]
                    # ------------------------------------------------------------------ leave a with-block
                    elif op in ("exit", "exit_exc"):
                        if not cms:
                            out = "skip"
                        else:
                            h, real = cms.pop()
                            try:
                                if op == "exit":
                                    real.__exit__(None, None, None)
                                else:
                                    real.__exit__(KeyError, KeyError("boom"), None)
                            except ERR as e:
                                raised = e
                                out = "raised:" + type(e).__name__
                            except sqlite3.Error as e:
                                raised = e
                                out = "raised-dbapi:" + type(e).__name__
                            injected = len(plan.fired) > fired_before
                            if injected:
                                faulted[0] = True
                                # commit-on-exit failed: the context manager rolls back
                                if h.kind == "root":
                                    m_rollback_root()
                                else:
                                    strict[0] = False
                            elif h.state == "active" and not h.zombie and raised is not None and not strict[0] and h.kind == "sp":
                                k = stack.index(h)
                                stack[k - 1].values.update(h.values)
                                h.state = "ended"
                                del stack[k]
                                bump("probe:op_refused_after_out_of_order_use")
                            elif h.state == "active" and not h.zombie:
                                if raised is not None:
                                    V("unexpected_raise", "leaving a with-block of an active transaction raised %s" % type(raised).__name__, op=i)
                                if op == "exit":
                                    if h.kind == "root":
                                        m_commit_root()
                                    else:
                                        m_release(h)
                                else:
                                    if h.kind == "root":
                                        m_rollback_root()
                                    else:
                                        m_rollback_to(h)
                            elif h.zombie:
                                h.zombie = False
                                h.state = "ended"
                                strict[0] = False
                            elif h.state == "failed":
                                pass       # a failed COMMIT needs an explicit rollback(); leaving the block does not replace it
                except ERR as e:
                    out = "raised-outer:" + type(e).__name__
                    strict[0] = False
                trace.append([i, op, arg, inorder, out])

                # ---- oracles after every op
                got = seen()
                if got != committed:
                    extra, missing = sorted(got - committed), sorted(committed - got)
                    if extra:
                        V("uncommitted_data_visible", "other connections see rows %s that the model says are not committed (after op %d %s)"
                          % (extra, i, op), op=i)
                    else:
                        V("committed_data_missing", "rows %s committed per the model are not visible to other connections (after op %d %s)"
                          % (missing, i, op), op=i)
                if strict[0] and not closed[0] and not viol:
                    want_tx = root() is not None and root().state == "active"
                    want_nested = len(stack) > 1
                    if conn.in_transaction() != want_tx:
                        V("in_transaction_mismatch", "in_transaction()=%s, model %s after op %d %s" % (conn.in_transaction(), want_tx, i, op), op=i)
                    elif conn.in_nested_transaction() != want_nested:
                        V("in_nested_transaction_mismatch", "in_nested_transaction()=%s, model %s after op %d %s"
                          % (conn.in_nested_transaction(), want_nested, i, op), op=i)
                if viol:
                    break
            # ---- epilogue: connection usable after rollback, and close() discards everything uncommitted
            if not viol:
                try:
                    while cms:
                        h, real = cms.pop()
                        try:
                            real.__exit__(None, None, None)
                        except ERR:
                            pass
                        except sqlite3.Error:
                            pass
                    plan.enabled = False
                    if not closed[0]:
                        if root() is not None and root().state == "failed":
                            conn.rollback()        # the documented recovery; leaving without it is C24's subject
                        conn.close()
                    got = seen()
                    # whatever the with-blocks committed on the way out is legal; what matters: nothing uncommitted survives close()
                    c2 = eng.connect()
                    next_val[0] += 1
                    c2.execute(text("insert into t (v) values (:v)"), {"v": 100000 + next_val[0]})
                    c2.commit()
                    c2.close()
                    if (100000 + next_val[0]) not in seen():
                        V("committed_data_missing", "a row committed on a fresh connection after the history is not visible")
                except ERR as e:
                    V("connection_unusable_after_history", "fresh connect/insert/commit after the history raised %s: %s"
                      % (type(e).__name__, str(e)[:120]))
    finally:
        try:
            eng.dispose()
        except Exception:
            pass
        obs.close()
        gc.collect()
    nontriv = any(t[1] in ("h_commit", "c_commit", "h_rollback", "c_rollback", "exit", "exit_exc", "c_close") and t[4] == "ok" for t in trace) \
        and next_val[0] > 0
    for k, n, f, cid in plan.fired:
        bump("fault:%s_%s" % (k.split(":")[0], f))
    bump("mode_" + case["mode"])
    if not strict[0]:
        bump("probe:history_left_strict_mode")
    points = [list(c) for c in plan.calls]
    insert_count = sum(1 for c in plan.calls if c[0] == "execute" and c[1] and c[1].startswith("INSERT"))
    return {"viol": viol, "digest": digest_of([case["mode"], case["prog"], case["faults"], trace]), "nontrivial": nontriv,
            "counters": counters, "sets": {"abstract_states": [[len(stack), len(handles), len(cms), strict[0]]]},
            "trace": trace, "points": points, "insert_count": insert_count}
