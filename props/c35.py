"""C35 — object lifecycle states and events follow the documented state machine (ormsim)."""
from props import _orm

_orm.define(globals(), "C35", ("C35",), "lifecycle",
            "deterministic simulation: seeded ORM session histories with listeners for every lifecycle event; after each operation every tracked "
            "object must be in exactly one state and the events recorded for it must form a walk, along documented edges, from its observed state "
            "before the operation to its observed state after it",
            "seeded search over histories of add / delete / expunge / flush / commit / rollback / savepoints / close / queries over 4 cascade "
            "configurations; per-object comparison (global order among different objects is not part of the property).  Sampled.",
            "self-consistency oracle: which objects an operation should move is judged by C39/C33, here only that state changes and events agree",
            weights={"delete": 4, "expunge": 2, "rollback": 3, "commit": 3, "begin_nested": 2, "sp_commit": 1, "sp_rollback": 2, "close": 1,
                     "add": 3, "k_rename": 2, "row_replace": 2, "merge": 1}, fault_fn=_orm.txn_faults)
