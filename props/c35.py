"""C35 — object lifecycle states and events follow the documented state machine (ormsim)."""
from props import _orm

def _shape(rng, pool, cfg):
    """retry after rollback: objects that were added (and possibly deleted again) inside a transaction that is rolled back are added
    again to the same session"""
    x = rng.random()
    if x > 0.3:
        return None
    if x > 0.2:
        # an object is expunged (or the session closed) in the middle of a transaction that has flushed changes of it - inserted,
        # key-switched or deleted - possibly inside a savepoint; then the transaction ends one way or the other
        cfg["expunge_midtxn"] = True
        cfg["close_midtxn"] = rng.random() < 0.5
        r = lambda: rng.randrange(64)
        prog = [["mk", 6, 1 + 3 * rng.randrange(20)] for _ in range(rng.randint(1, 2))] + [["commit", 0, 0]]
        prog.append([rng.choice(("delete", "k_rename", "set", "delete")), r(), r()])
        prog.append(["flush", 0, 0])
        if rng.random() < 0.6:
            prog.append(["begin_nested", 0, 0])
        prog.append([rng.choice(("expunge", "expunge", "close")), r(), 1 + 2 * rng.randrange(30)])
        for _ in range(rng.randint(0, 2)):
            prog.append([rng.choice(("sp_commit", "sp_rollback", "flush", "mk")), r(), r()])
        prog.append([rng.choice(("commit", "rollback", "commit")), 0, 0])
        prog += [[rng.choice(pool), r(), r()] for _ in range(rng.randint(0, 6))]
        return prog
    cfg["readd"] = True
    r = lambda: rng.randrange(64)
    odd3 = lambda: 1 + 3 * rng.randrange(20)
    prog = [["mk", rng.choice((3, 4, 6, 7)), odd3()] for _ in range(rng.randint(1, 3))]
    if rng.random() < 0.5:
        prog.append(["begin_nested", 0, 0])
    prog.append(["flush", 0, 0])
    for _ in range(rng.randint(0, 2)):
        prog.append([rng.choice(("delete", "delete", "set", "flush")), r(), r()])
    prog.append(["flush", 0, 0])
    prog.append([rng.choice(("rollback", "rollback", "sp_rollback")), 0, 0])
    for _ in range(rng.randint(1, 3)):
        prog.append(["add", r(), r()])
    prog.append([rng.choice(("flush", "commit")), 0, 0])
    prog += [[rng.choice(pool), r(), r()] for _ in range(rng.randint(0, 8))]
    return prog


_orm.define(globals(), "C35", ("C35",), "lifecycle",
            "deterministic simulation: seeded ORM session histories with listeners for every lifecycle event; after each operation every tracked "
            "object must be in exactly one state and the events recorded for it must form a walk, along documented edges, from its observed state "
            "before the operation to its observed state after it",
            "seeded search over histories of add / delete / expunge / flush / commit / rollback / savepoints / close / queries over 4 cascade "
            "configurations; per-object comparison (global order among different objects is not part of the property).  Sampled.",
            "self-consistency oracle: which objects an operation should move is judged by C39/C33, here only that state changes and events agree",
            weights={"delete": 4, "expunge": 2, "rollback": 3, "commit": 3, "begin_nested": 2, "sp_commit": 1, "sp_rollback": 2, "close": 1,
                     "add": 3, "k_rename": 2, "row_replace": 2, "merge": 1, "make_transient": 3}, fault_fn=_orm.txn_faults, shape=_shape)
