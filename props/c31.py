"""C31 — flush emits statements in an order that satisfies every constraint (ormsim)."""
from props import _orm

_orm.define(globals(), "C31", ("C31",), "ordering",
            "deterministic simulation: seeded ORM session histories (only valid final states are generated: rules R1-R4) flushed against real "
            "SQLite with immediate FOREIGN KEY and NOT NULL enforcement; an IntegrityError from any flush statement is the violation, "
            "and the rows after the flush must be the ones the objects specify",
            "seeded search over histories mixing inserts, FK moves, deletes with cascades, orphans discovered during flush, self-referential "
            "trees, many-to-many rows and primary-key changes inside one flush, over 4 cascade configurations.  Sampled.",
            "SQLite enforces constraints per statement, which is the 'checks constraints immediately' backend of the property; post_update "
            "cycles are not part of the universe (no mutually dependent rows are generated)",
            weights={"mk_child": 6, "h_doc": 4, "q_ops": 4, "delete": 5, "set_parent": 4, "node_parent": 4, "bs_remove": 3, "bs_replace": 2,
                     "k_rename": 2, "follow": 3, "tag_add": 3, "flush": 5, "commit": 2, "requery": 0, "get": 0, "lazy": 1})
