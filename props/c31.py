"""C31 — flush emits statements in an order that satisfies every constraint (ormsim)."""
from props import _orm

def _shape(rng, pool, cfg):
    """tree nodes with labels (many-to-many without reverse side): a label is removed from a node and deleted in the same flush in
    which the node also takes part in a parent/child change (per-state ordering inside a cycle)"""
    if rng.random() > 0.25:
        return None
    r = lambda: rng.randrange(64)
    odd3 = lambda: 1 + 3 * rng.randrange(20)           # mk adds the object when a2 % 3 != 0
    prog = [["mk", rng.choice((4, 5)), odd3()] for _ in range(rng.randint(1, 3))] + [["mk", 3, odd3()] for _ in range(rng.randint(1, 2))]
    prog += [["label", r(), 4 * rng.randrange(16) + rng.randrange(2)] for _ in range(rng.randint(1, 3))]
    prog.append([rng.choice(("commit", "flush", "commit")), 0, 0])
    for _ in range(rng.randint(1, 3)):
        prog.append([rng.choice(("mk", "node_parent", "node_parent", "follow", "set")), rng.choice((4, 5, r())), odd3()])
    prog.append(["label", r(), 4 * rng.randrange(16) + 3])
    prog += [[rng.choice(pool), r(), r()] for _ in range(rng.randint(0, 6))]
    prog.append(["flush", 0, 0])
    return prog


_orm.define(globals(), "C31", ("C31",), "ordering",
            "deterministic simulation: seeded ORM session histories (only valid final states are generated: rules R1-R4) flushed against real "
            "SQLite with immediate FOREIGN KEY and NOT NULL enforcement; an IntegrityError from any flush statement is the violation, "
            "and the rows after the flush must be the ones the objects specify",
            "seeded search over histories mixing inserts, FK moves, deletes with cascades, orphans discovered during flush, self-referential "
            "trees, many-to-many rows and primary-key changes inside one flush, over 4 cascade configurations.  Sampled.",
            "SQLite enforces constraints per statement, which is the 'checks constraints immediately' backend of the property; post_update "
            "cycles are not part of the universe (no mutually dependent rows are generated)",
            weights={"mk_child": 6, "h_doc": 4, "q_ops": 4, "delete": 5, "set_parent": 4, "node_parent": 4, "bs_remove": 3, "bs_replace": 2,
                     "k_rename": 2, "follow": 3, "tag_add": 3, "flush": 5, "commit": 2, "requery": 0, "get": 0, "lazy": 1, "label": 6, "mk": 5,
                     "set_k": 2, "row_switch": 3}, shape=_shape)
