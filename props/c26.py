"""C26 — the pool recovers from any fault without leaking or reusing dead connections.

Sequential fault enumeration on the ledger DBAPI (DESIGN §6 C26): a generated history of
pool operations is first run clean, recording every DBAPI call and instrumented listener
call the pool made; then it is re-run once per (call, applicable fault kind), plus sampled
2- and 3-fault combinations.  Only Exception-class faults count toward the verdict.
"""
import gc
import warnings

from simfw import ledger as L
from simfw.core import digest_of

ID = "C26"
LEVEL = "fault_enumeration"
TECHNIQUE = "deterministic simulation: ledger DBAPI + virtual clock + scheduled GC; fault enumeration at every DBAPI/listener call of seeded pool histories"
ENGINE = "dbsim"
LEVEL_TEXT = ("every DBAPI call and instrumented pool-listener call of each seeded pool history is a fault position that is actually "
              "re-run with every applicable Exception-class fault kind (plus sampled 2-3 fault plans); the ledger, not the pool's own "
              "counters, decides leaks and reuse.  Evidence over the sampled histories, not a proof.")
LEVEL_NOTE = ("trusts the ledger DBAPI/dialect stubs and the virtual clock; single caller thread; BaseException faults are tabulated only; "
              "StaticPool soft invalidation is excluded as documented-unsupported")
TIERS = {
    "quick": {"runs": 2400, "secs": 30},
    "thorough": {"runs": 60000, "secs": 420, "hashseeds": [0, 1, 2, 3]},
}
SHRINK = ["prog", "faults"]
MIN_BUDGET = 200
RULE = ("base history = seeded op list (checkout/checkin/invalidate/soft-invalidate/pool-invalidate/drop-ref/gc/clock-jump/"
        "server-kill/dispose) on a seeded pool config; derived cases = one rerun per (DBAPI or listener call of the clean run) x "
        "applicable fault kind + sampled multi-fault plans.  distinct = canonical digest of (op outcomes, DBAPI call log); "
        "non-trivial = at least one fault fired or >=3 DBAPI calls reached the driver")
COMPONENTS_REAL = ["sqlalchemy.pool.base (_ConnectionRecord, _ConnectionFairy, _finalize_fairy)",
                   "sqlalchemy.pool.impl (QueuePool FIFO/LIFO, NullPool, StaticPool, SingletonThreadPool)",
                   "sqlalchemy.util.queue.Queue", "sqlalchemy.event dispatch", "DefaultDialect._do_ping_w_event"]
COMPONENTS_STUB = ["ledger DBAPI (connections are flags/counters)", "virtual clock for pool.base.time and util.queue._time",
                   "gc disabled; gc.collect()/drop-reference are scheduled operations"]
ASSUMPTIONS = ["single caller thread (interleavings are C25's subject)",
               "BaseException-class faults are run and tabulated but are not part of the verdict (property lists Exception-class faults)",
               "pool invalidation follows the documented *generation* rule of Pool._invalidate: an invalidation triggered by a "
               "connection older than the previous invalidation does not start a new generation",
               "pure-Python implementations of the _cy modules ran"]

POOLS = ["queue", "queue", "queue", "queue_lifo", "null", "static", "singleton"]
OPS = ["co", "co", "co", "ci", "ci", "inv", "softinv", "pinv", "drop", "gc", "jump", "kill", "dispose"]

_mods = {}


def setup():
    import sqlalchemy.pool.base as pbase
    import sqlalchemy.util.queue as squeue
    import sqlalchemy.pool.impl as pimpl
    from sqlalchemy import pool, exc, event
    _mods.update(pbase=pbase, squeue=squeue, pool=pool, exc=exc, event=event, pimpl=pimpl)
    gc.disable()
    gc.collect()
    gc.freeze()
    import sys
    sys.unraisablehook = lambda *a: None   # BaseException faults inside weakref callbacks (non-verdict runs)


def gen_case(rng, tier):
    kind = rng.choice(POOLS)
    cfg = {
        "pool": kind,
        "size": rng.choice([1, 1, 2, 3]),
        "over": rng.choice([0, 0, 1, 2, -1]),
        "pre_ping": rng.random() < 0.5,
        "recycle": rng.choice([-1, -1, 5, 50]),
        "reset": rng.choice(["rollback", "rollback", "commit", None]),
        "listeners": sorted(set(rng.sample(["checkout", "reset", "connect", "first_connect", "checkin", "invalidate", "close"],
                                           rng.randint(0, 4)))),
        "holders": 1 if kind in ("static", "singleton") else rng.randint(1, 3),
    }
    n = rng.randint(4, 16)
    prog = []
    for _ in range(n):
        op = rng.choice(OPS)
        if kind == "static" and op == "softinv":
            # StaticPool documents invalidation as "only partially supported"; a soft-invalidated
            # StaticPool record is replaced without being closed.  Not generated (DESIGN §10 corrections).
            op = "inv"
        h = rng.randrange(cfg["holders"])
        arg = 0
        if op == "jump":
            arg = rng.choice([1, 4, 6, 60])
        elif op == "inv":
            arg = rng.randrange(2)   # with exception?
        elif op == "co":
            arg = rng.randrange(2)   # run a statement while holding?
        prog.append([op, h, arg])
    return {"cfg": cfg, "prog": prog, "faults": [], "nonverdict": False}


def _applicable(kind):
    if kind == "connect":
        return ["error", "disc"]
    if kind in ("rollback", "commit"):
        return ["error", "disc"]
    if kind == "close":
        return ["error"]
    if kind == "ping":
        return ["false", "disc", "error"]
    if kind == "execute":
        return ["disc"]
    if kind == "L:checkout":
        return ["ldisc0", "ldisc1", "error"]
    if kind in ("L:reset", "L:connect", "L:first_connect"):
        return ["error"]
    if kind == "charreset":
        return ["error"]
    return []


NONVERDICT_LISTENERS = ("L:checkin", "L:invalidate", "L:close")


def derive_cases(case, res):
    import random
    points = res["points"]
    singles = []
    for kind, n in points:
        for f in _applicable(kind):
            singles.append([kind, n, f])
    for s in singles:
        c = dict(case)
        c["faults"] = [s]
        yield c
    rng = random.Random(case["seed"] ^ 0x5A5A)
    if len(singles) >= 2:
        for _ in range(min(12, len(singles))):
            k = rng.choice([2, 2, 3])
            combo = rng.sample(singles, min(k, len(singles)))
            if len({(a, b) for a, b, _ in combo}) < len(combo):
                continue
            c = dict(case)
            c["faults"] = sorted(combo)
            yield c
    # non-verdict configuration: BaseException at DBAPI calls, Exception from listeners the property does not list
    nv = []
    for kind, n in points:
        if kind in ("connect", "rollback", "commit", "close", "ping"):
            nv.append([kind, n, "base"])
        elif kind in NONVERDICT_LISTENERS:
            nv.append([kind, n, "error"])
    for s in rng.sample(nv, min(6, len(nv))):
        c = dict(case)
        c["faults"] = [s]
        c["nonverdict"] = True
        yield c


def _build(cfg, led, clock):
    pool, exc, event = _mods["pool"], _mods["exc"], _mods["event"]
    d = L.make_dialect(led)
    creator = L.make_creator(led)
    kw = dict(pre_ping=cfg["pre_ping"], recycle=cfg["recycle"], reset_on_return=cfg["reset"], dialect=d)
    k = cfg["pool"]
    if k in ("queue", "queue_lifo"):
        p = pool.QueuePool(creator, pool_size=cfg["size"], max_overflow=cfg["over"], timeout=0.5,
                           use_lifo=(k == "queue_lifo"), **kw)
    elif k == "null":
        p = pool.NullPool(creator, **kw)
    elif k == "static":
        p = pool.StaticPool(creator, **kw)
    elif k == "singleton":
        p = pool.SingletonThreadPool(creator, pool_size=cfg["size"], **kw)
    else:
        raise ValueError(k)

    def mk(name):
        kind = "L:" + name

        def listener(*a):
            dbc = a[0] if a and isinstance(a[0], L.LConn) else None
            f = led.point(kind, dbc)
            if f is None:
                return
            if f == "ldisc0":
                raise exc.DisconnectionError("injected")
            if f == "ldisc1":
                if dbc is not None:
                    led.pool_inval.append((dbc.id, clock.peek()))
                raise exc.InvalidatePoolError("injected")
            if f == "error":
                raise RuntimeError("injected listener error at " + kind)
            if f == "base":
                raise L.LExit(kind)
        return listener

    for name in cfg["listeners"]:
        event.listen(p, name, mk(name))
    return p


def run_case(case):
    pbase, squeue, exc = _mods["pbase"], _mods["squeue"], _mods["exc"]
    cfg = case["cfg"]
    clock = L.VClock()
    led = L.Ledger(clock, case["faults"])
    led.pool_inval = []   # (trigger conn id, time)
    old_time, old_qtime = pbase.time, squeue._time
    pbase.time = L.TimeShim(clock)
    squeue._time = clock.time
    old_qth, old_ith = squeue.threading, _mods["pimpl"].threading
    squeue.threading = _mods["pimpl"].threading = L.SeqThreading(clock)
    viol = []
    trace = []
    counters = {}

    def bump(k, n=1):
        counters[k] = counters.get(k, 0) + n

    def V(oracle, sig, **detail):
        viol.append({"oracle": oracle, "sig": sig, "detail": detail})

    # ping instrumentation: a failed/false ping is a pool-invalidation trigger
    orig_point = led.point

    holders = {}
    held = {}              # holder -> conn id
    hard_inv = set()
    soft_inv = {}          # conn id -> time
    eff_inval = [0.0]      # effective pool invalidation time (generation rule)
    seen_inval = [0]

    def fold_invalidations():
        while seen_inval[0] < len(led.pool_inval):
            cid, t = led.pool_inval[seen_inval[0]]
            seen_inval[0] += 1
            c = led.conns[cid]
            if eff_inval[0] < c.created:
                eff_inval[0] = t

    def on_handout(h, fairy, where):
        dc = fairy.dbapi_connection
        fold_invalidations()
        t = clock.peek()
        if any(cid == dc.id for hh, cid in held.items() if hh != h):
            return  # shared by contract (static/singleton); exclusivity is C25's subject
        sfx = "%s pool=%s" % (where, cfg["pool"])
        if dc.close_called or dc.closed:
            V("handed_closed", "closed connection handed out at " + sfx, conn=dc.id)
        elif dc.id in hard_inv:
            V("handed_invalidated", "hard-invalidated connection handed out at " + sfx, conn=dc.id)
        elif dc.id in soft_inv and soft_inv[dc.id] < t:
            V("handed_soft_invalidated", "soft-invalidated connection handed out again at " + sfx, conn=dc.id)
        elif dc.reset_failed:
            V("handed_after_failed_reset", "connection whose reset raised handed out at " + sfx, conn=dc.id)
        elif dc.created <= eff_inval[0]:
            V("handed_older_than_pool_invalidation", "connection older than a pool invalidation handed out at " + sfx,
              conn=dc.id, created=dc.created, inval=eff_inval[0])
        elif cfg["recycle"] > -1 and t - dc.created > cfg["recycle"] + 1e-3:
            V("handed_older_than_recycle", "connection older than pool_recycle handed out at " + sfx, conn=dc.id,
              age=t - dc.created)
        elif cfg["pre_ping"] and dc.dead:
            V("handed_dead_despite_pre_ping", "dead connection handed out with pre_ping at " + sfx, conn=dc.id)

    p = None
    wlist = []
    try:
        with warnings.catch_warnings(record=True) as wlist:
            warnings.simplefilter("always")
            p = _build(cfg, led, clock)
            # ping hook
            d = p._dialect
            base_ping = d.do_ping

            def do_ping(dbc):
                n0 = len(led.fired)
                try:
                    r = base_ping(dbc)
                except L.LDisconnect:
                    led.pool_inval.append((dbc.id, clock.peek()))
                    raise
                if r is False:
                    led.pool_inval.append((dbc.id, clock.peek()))
                return r
            d.do_ping = do_ping

            def release(h):
                holders.pop(h, None)
                held.pop(h, None)

            for i, (op, h, arg) in enumerate(case["prog"]):
                out = "ok"
                try:
                    if op == "co":
                        if h in holders:
                            out = "skip"
                        else:
                            holders[h] = p.connect()
                            on_handout(h, holders[h], "checkout")
                            held[h] = holders[h].dbapi_connection.id
                            if arg and cfg.get("charreset", True):
                                # what Engine-level execution options do (DefaultDialect._set_connection_characteristics): a
                                # per-checkout characteristic whose reset runs at checkin and talks to the driver - "errors during reset"
                                def _reset_char(dbc, _led=led):
                                    f = _led.point("charreset", dbc)
                                    if f is not None:
                                        dbc.reset_failed = True
                                        _led.raise_for(f, "charreset", dbc)
                                holders[h]._connection_record.finalize_callback.append(_reset_char)
                            if arg:
                                cur = holders[h].cursor()
                                try:
                                    cur.execute("select 1")
                                finally:
                                    cur.close()
                                    del cur
                    elif op == "ci":
                        if h in holders:
                            f = holders[h]
                            release(h)
                            try:
                                f.close()
                            finally:
                                del f
                        else:
                            out = "skip"
                    elif op == "inv":
                        if h in holders:
                            f = holders[h]
                            hard_inv.add(held[h])
                            release(h)
                            try:
                                f.invalidate(RuntimeError("x") if arg else None)
                            finally:
                                del f
                        else:
                            out = "skip"
                    elif op == "softinv":
                        if h in holders:
                            soft_inv.setdefault(held[h], clock.peek())
                            holders[h].invalidate(soft=True)
                        else:
                            out = "skip"
                    elif op == "pinv":
                        if h in holders:
                            f = holders[h]
                            hard_inv.add(held[h])
                            led.pool_inval.append((held[h], clock.peek()))
                            release(h)
                            try:
                                p._invalidate(f, RuntimeError("disconnect seen by engine"))
                            finally:
                                del f
                        else:
                            out = "skip"
                    elif op == "drop":
                        if h in holders:
                            release(h)   # refcount -> weakref callback -> _finalize_fairy
                            bump("fault:drop_reference")
                        else:
                            out = "skip"
                    elif op == "gc":
                        gc.collect()
                        bump("fault:gc_collect")
                    elif op == "jump":
                        clock.jump(arg)
                        bump("fault:clock_jump_forward")
                    elif op == "kill":
                        for c in led.conns:
                            if not c.closed:
                                c.dead = True
                        bump("fault:server_kill")
                    elif op == "dispose":
                        if not holders:
                            p.dispose()
                            gc.collect()
                            left = [c.id for c in led.conns if not c.close_called]
                            if left and cfg["pool"] != "singleton":
                                V("dispose_left_open", "dispose() with no holders left connections open pool=%s" % cfg["pool"],
                                  conns=left)
                        else:
                            out = "skip"
                except (L.LError, exc.SQLAlchemyError, RuntimeError) as e:
                    out = "raised:" + type(e).__name__
                    release(h)
                    del e
                except L.LExit:
                    out = "raised:EXIT"
                    release(h)
                trace.append([i, op, h, arg, out])

            # ---- every holder releases; faults stop
            for h in sorted(holders):
                f = holders[h]
                release(h)
                try:
                    f.close()
                except (L.LError, exc.SQLAlchemyError, RuntimeError) as e:
                    trace.append(["final_ci", h, type(e).__name__])
                    del e
                except L.LExit:
                    trace.append(["final_ci", h, "EXIT"])
                del f
            gc.collect()
            led.enabled = False
            # a "kill" is a server restart: surviving idle connections stay dead (pre_ping must detect them)
            fold_invalidations()

            if hasattr(p, "checkedout"):
                n = p.checkedout()
                if n != 0:
                    V("checkedout_nonzero", "checkedout()=%d after every holder released pool=%s" % (n, cfg["pool"]),
                      status=p.status())
            # liveness: one more checkout + checkin succeeds once faults stopped
            try:
                f = p.connect()
                on_handout("post", f, "post-fault checkout")
                f.close()
                del f
            except Exception as e:
                V("post_fault_checkout_failed", "checkout after faults stopped raised %s pool=%s" % (type(e).__name__, cfg["pool"]),
                  error=repr(e)[:200])
                del e
            gc.collect()
            if hasattr(p, "checkedout") and not viol:
                n = p.checkedout()
                if n != 0:
                    V("checkedout_nonzero", "checkedout()=%d after post-fault checkin pool=%s" % (n, cfg["pool"]))
            # everything the pool opened is idle in the pool or closed  <=>  after dispose() everything is closed
            p.dispose()
            gc.collect()
            leaked = [c.id for c in led.conns if not c.close_called]
            if leaked:
                first = leaked[0]
                V("leaked_connection", "connection opened by the pool is neither idle in the pool nor closed (pool=%s; faults=%s)"
                  % (cfg["pool"], ",".join("%s:%s" % (k, f) for k, n, f, *_ in led.fired) or "none"), conns=leaked)
    finally:
        pbase.time, squeue._time = old_time, old_qtime
        squeue.threading, _mods["pimpl"].threading = old_qth, old_ith
        holders.clear()
        del p
        gc.collect()

    for w in wlist:
        if "Double checkin" in str(w.message):
            bump("probe:double_checkin_warning")
    for kind, n, f, cid, t in led.fired:
        bump("fault:%s_%s" % (kind.replace("L:", "listener_"), f))
    bump("dbapi_calls", len(led.calls))
    bump("vtime_us", int((clock.peek() - 1000.0) * 1e6))
    for t in trace:
        if isinstance(t[0], int) and t[4].startswith("raised"):
            bump("probe:op_raised")
    if len(led.fired) >= 2:
        bump("probe:multi_fault_run")
    points = [[k, n] for k, n, _ in led.calls]
    digest = digest_of([cfg, trace, [(k, n, c) for k, n, c in led.calls], [list(x[:4]) for x in led.fired]])
    if case.get("nonverdict"):
        for v in viol:
            bump("nonverdict:" + v["oracle"])
        bump("nonverdict_runs")
        viol = []
    return {
        "viol": viol,
        "digest": digest,
        "nontrivial": bool(led.fired) or len(led.calls) >= 3,
        "counters": counters,
        "sets": {"pool_kinds": [cfg["pool"]],
                 "abstract_states": [[cfg["pool"], len(led.conns), sum(1 for c in led.conns if c.close_called),
                                      len(led.fired), len([t for t in trace if "raised" in str(t[-1])])]]},
        "points": points,
        "trace": trace,
    }
