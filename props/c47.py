"""C47 — with autoflush on, queries see all pending changes (ormsim)."""
from props import _orm

def _cfg(rng, cfg):
    cfg["autoflush"] = True

_orm.define(globals(), "C47", ("C47",), "autoflush",
            "deterministic simulation: seeded ORM session histories with autoflush on in which queries, Session.get of absent identities and "
            "lazy loads are issued while adds, modifications and deletes are pending; the result of each must equal what the session's own "
            "transaction shows after an explicit flush (probe through the session's connection), and nothing pending may remain; a selectinload "
            "query consumed as a stream (yield_per=1) with an object added between two batches: the next batch's loader query flushes it",
            "seeded search; query results are compared with rows probed on the session's connection right after the query, lazy-loaded "
            "collections with the FK / association rows.  Sampled.",
            "queries are whole-entity selects, get() and relationship lazy loads; autoflush=False histories belong to C30",
            weights={"requery": 8, "get": 5, "lazy": 6, "set": 5, "set_parent": 4, "delete": 4, "mk": 5, "mk_child": 5, "flush": 1, "tag_add": 3,
                     "bs_remove": 3, "k_rename": 2, "merge": 3, "bulk": 3, "set_k": 2, "stream": 4}, cfg_fn=_cfg)
