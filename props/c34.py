"""C34 — the identity map holds at most one object per row (ormsim)."""
from props import _orm

_orm.define(globals(), "C34", ("C34",), "identity",
            "deterministic simulation: seeded ORM session histories of queries, get, lazy loads, refresh, expunge / re-add, primary-key changes, "
            "flushes, rollbacks and savepoints; after every operation no two live objects of the session share an identity key, every loaded "
            "object is the one the identity map holds, and Session.get of a present unexpired identity returns it without SQL",
            "seeded search; identity of every object returned by a query / get / lazy load is compared with the objects the harness already "
            "tracks for that identity; SQL emission is observed through before_cursor_execute.  Sampled.",
            "merge is exercised by C45; gc-driven release of unreferenced objects by C48",
            weights={"requery": 5, "get": 6, "lazy": 4, "k_rename": 4, "rollback": 3, "begin_nested": 2, "sp_rollback": 2, "sp_commit": 1,
                     "expunge": 2, "add": 3, "refresh": 2, "expire": 2, "delete": 2, "populate_existing": 2, "merge": 3},
            shape=_orm.txn_blocks, fault_fn=_orm.hook_faults)
