"""C24 — pooled connections carry no state from a previous checkout.

Sequential history simulation: a sequence of "tenants" uses one Engine (QueuePool size 1-2 / NullPool / StaticPool over the
fault-capable sqlite3 proxy on a tmpfs file).  Each tenant checks out (Core Connection, option-engine Connection or raw pool
connection), does some of: write marked rows, explicit begin, savepoint, isolation-level changes (before and -wrongly- inside a
transaction), hits injected execute/commit errors; and leaves in one of many ways (commit+close, rollback+close, bare close,
drop reference + gc, exception out of a with-block, invalidate, failed COMMIT then close).  At the *checkout event* of every
later tenant the raw sqlite3 connection underneath is probed through the proxy's side channel.
"""
import gc
import os
import shutil
import sqlite3
import tempfile
import warnings

from simfw import sqlproxy as SP
from simfw.core import digest_of

ID = "C24"
LEVEL = "exploration"
ENGINE = "dbsim"
TECHNIQUE = ("deterministic simulation: seeded multi-tenant checkout histories on real SQLite behind a fault-injecting DBAPI proxy; "
             "ground-truth probe of the raw driver connection at every pool checkout event; scheduled GC; error injection at "
             "execute/COMMIT/reset-rollback calls")
LEVEL_TEXT = ("seeded search over tenant histories (what a holder did x how it left x pool kind x reset_on_return x engine options), with "
              "every hand-out probed on the raw driver object for open transaction, visible uncommitted rows and non-default isolation "
              "settings; plus one rerun per COMMIT / reset ROLLBACK / INSERT call with an injected driver error.  Sampled.")
LEVEL_NOTE = ("SQLite/pysqlite only (legacy driver transaction mode and the isolation_level=None + BEGIN-event recipe, both with a precise "
              "in_transaction flag); reset_on_return=None runs only measure, as the property excepts them")
TIERS = {
    "quick": {"runs": 5000, "secs": 30},
    "thorough": {"runs": 300000, "secs": 420, "hashseeds": [0, 1]},
}
SHRINK = ["tenants", "faults"]
MIN_BUDGET = 200
RULE = ("history = seeded list of tenants (api, actions, leave mode) on a seeded engine/pool config; distinct = digest of config, tenants and "
        "probe results; non-trivial = >=2 hand-outs of a pooled connection that had been used by an earlier tenant")
COMPONENTS_REAL = ["sqlalchemy.engine (Engine, OptionEngine, Connection, transactions, isolation-level characteristics)",
                   "sqlalchemy.pool (QueuePool, NullPool, StaticPool; reset on return, weakref finalisation)", "pysqlite dialect",
                   "stdlib sqlite3 + SQLite on tmpfs"]
COMPONENTS_STUB = ["DBAPI proxy module (fault points, side channel)", "gc disabled; gc.collect() is a scheduled operation"]
ASSUMPTIONS = ["single caller thread", "pure-Python implementations of the _cy modules ran"]

_m = {}
_dir = [None]
LEVELS = ["AUTOCOMMIT", "READ UNCOMMITTED", "SERIALIZABLE"]
ACTIONS = ["write", "write", "begin", "savepoint", "iso", "iso_in_txn", "write_fail", "select", "logtoken"]
LEAVES = ["commit_close", "commit_close", "rollback_close", "close", "close", "drop", "drop_gc", "exc_with", "invalidate",
          "commit_fail_close", "commit_fail_rollback_close"]



def _workdir():
    """one directory per worker process: SQLite creates and deletes journal files all the time, and sixteen workers doing that in one
    tmpfs directory serialise on it"""
    d = os.path.join(_dir[0], "p%d" % os.getpid())
    os.makedirs(d, exist_ok=True)
    return d

def setup():
    from sqlalchemy import create_engine, text, exc, event
    from sqlalchemy import pool
    _m.update(create_engine=create_engine, text=text, exc=exc, event=event, pool=pool)
    _dir[0] = tempfile.mkdtemp(prefix="verif-c24-", dir="/dev/shm" if os.path.isdir("/dev/shm") else None)
    import atexit
    atexit.register(lambda: shutil.rmtree(_dir[0], ignore_errors=True))
    gc.disable()
    gc.collect()
    gc.freeze()
    import sys
    sys.unraisablehook = lambda *a: None


def gen_case(rng, tier):
    cfg = {
        "pool": rng.choice(["queue", "queue", "queue", "static", "null"]),
        "size": rng.choice([1, 1, 2]),
        "reset": rng.choice(["rollback", "rollback", "rollback", "commit", None]),
        "mode": rng.choice(["legacy", "legacy", "begin_event"]),
        "skip_autocommit_rollback": rng.random() < 0.3,
        "engine_iso": rng.choice([None, None, None, "AUTOCOMMIT", "READ UNCOMMITTED"]),
        "pre_ping": rng.random() < 0.2,
    }
    if cfg["mode"] == "begin_event":
        # skip_autocommit_rollback is documented for connections that really are in driver autocommit; combining it with the
        # manual-BEGIN recipe (driver autocommit + explicit BEGIN) is a misconfiguration, not a pool defect
        cfg["skip_autocommit_rollback"] = False
    tenants = []
    for _ in range(rng.randint(3, 10)):
        t = {"api": rng.choice(["core", "core", "core", "option", "raw"]),
             "opt_iso": rng.choice(LEVELS),
             "actions": [[rng.choice(ACTIONS), rng.choice(LEVELS)] for _ in range(rng.randint(0, 5))],
             "leave": rng.choice(LEAVES)}
        tenants.append(t)
    return {"cfg": cfg, "tenants": tenants, "faults": []}


def derive_cases(case, res):
    seen = set()
    for kind, head, cid, n in res["points"]:
        if kind == "rollback":
            key = ("rollback", n)
        elif kind == "commit":
            key = ("commit", n)
        elif kind == "execute" and head and head.startswith("PRAGMA READ_UNCOMMITTED ="):
            # the statement that sets / resets the isolation level characteristic (also issued while the connection is checked in)
            key = ("execute", n)
        else:
            continue
        if key not in seen:
            seen.add(key)
            c = dict(case)
            c["faults"] = [[key[0], key[1], "error"]]
            yield c


def run_case(case):
    create_engine, text, exc, event, pool = _m["create_engine"], _m["text"], _m["exc"], _m["event"], _m["pool"]
    cfg = case["cfg"]
    path = os.path.join(_workdir(), "t.db")
    for suffix in ("", "-journal", "-wal", "-shm"):
        try:
            os.unlink(path + suffix)
        except OSError:
            pass
    obs = sqlite3.connect(path, timeout=0, isolation_level=None)
    obs.execute("create table t (v integer primary key)")
    plan = SP.Plan(case["faults"])
    mod = SP.make_module(plan)
    kw = {}
    if cfg["pool"] == "queue":
        kw.update(poolclass=pool.QueuePool, pool_size=cfg["size"], max_overflow=0, pool_timeout=0.01)
    elif cfg["pool"] == "static":
        kw.update(poolclass=pool.StaticPool)
    else:
        kw.update(poolclass=pool.NullPool)
    ca = {"timeout": 0}
    if cfg["mode"] == "begin_event":
        ca["isolation_level"] = None
    if cfg["engine_iso"]:
        kw["isolation_level"] = cfg["engine_iso"]
    if cfg["mode"] == "begin_event" and cfg["engine_iso"]:
        kw.pop("isolation_level")
    eng = create_engine("sqlite:///" + path, module=mod, connect_args=ca, pool_reset_on_return=cfg["reset"],
                        pool_pre_ping=cfg["pre_ping"], skip_autocommit_rollback=cfg["skip_autocommit_rollback"], **kw)
    if cfg["mode"] == "begin_event":
        @event.listens_for(eng, "begin")
        def do_begin(conn):
            conn.exec_driver_sql("BEGIN")

    viol = []
    trace = []
    counters = {}
    probes = []

    def bump(k, n=1):
        counters[k] = counters.get(k, 0) + n

    def V(oracle, sig, **detail):
        if not viol:
            viol.append({"oracle": oracle, "sig": sig, "detail": detail})

    committed = set()          # values the model says are committed
    state = {"tenant": -1, "defaults": None, "used": set(), "handouts_reused": 0, "reset_failed": set()}
    oracle_on = cfg["reset"] is not None

    def probe(dbc):
        """ground truth on the raw sqlite3 connection, at the pool's checkout event"""
        rawc = dbc._real
        intx = rawc.in_transaction
        iso_attr = rawc.isolation_level
        ru = rawc.execute("PRAGMA read_uncommitted").fetchone()[0]
        rows = set(r[0] for r in rawc.execute("select v from t"))
        return intx, iso_attr, ru, rows

    @event.listens_for(eng, "checkout")
    def on_checkout(dbc, rec, fairy):
        ti = state["tenant"]
        state["resetting"] = None
        intx, iso_attr, ru, rows = probe(dbc)
        if state["defaults"] is None:
            state["defaults"] = (iso_attr, ru)
        reused = dbc.id in state["used"]
        if reused:
            state["handouts_reused"] += 1
        probes.append([ti, dbc.id, intx, repr(iso_attr), ru, reused])
        if not oracle_on:
            return
        where = "tenant %d (pool=%s reset=%s mode=%s)" % (ti, cfg["pool"], cfg["reset"], cfg["mode"])
        if intx:
            V("handed_out_in_transaction", "connection handed out with an open transaction to " + where, conn=dbc.id)
        extra = rows - committed
        if extra and cfg["reset"] != "commit":      # reset_on_return="commit" publishes whatever a holder left (documented)
            V("uncommitted_rows_visible", "connection handed out to %s sees uncommitted rows %s of an earlier holder" % (where, sorted(extra)),
              conn=dbc.id)
        if (iso_attr, ru) != state["defaults"]:
            V("isolation_not_reset", "connection handed out to %s with driver isolation state %r, engine default %r"
              % (where, (iso_attr, ru), state["defaults"]), conn=dbc.id)
        if dbc.id in state["reset_failed"]:
            V("handed_out_after_failed_reset", "connection whose reset-on-return raised was handed out again to " + where, conn=dbc.id)

    @event.listens_for(eng, "reset")
    def on_reset(dbc, rec, rs):
        state["resetting"] = dbc.id

    @event.listens_for(eng, "checkin")
    def on_checkin(dbc, rec):
        state["resetting"] = None

    def on_fire(k, n, f, conn):
        if k == "rollback" and conn is not None and state.get("resetting") == conn.id:
            state["reset_failed"].add(conn.id)      # the pool's reset-on-return rollback raised
            bump("fault:reset_rollback_error")
    plan.on_fire = on_fire

    next_val = [0]

    def newval():
        next_val[0] += 1
        return next_val[0]

    held = []   # objects kept alive on purpose ("drop" without gc)
    try:
        with warnings.catch_warnings():
            warnings.simplefilter("ignore")
            for ti, t in enumerate(case["tenants"]):
                state["tenant"] = ti
                mine = set()         # values written by this tenant, not yet committed
                mine_auto = set()    # values written while in driver-level autocommit (already durable)
                out = []
                fired0 = len(plan.fired)
                c = None
                try:
                    if t["api"] == "raw":
                        c = eng.raw_connection()
                        state["used"].add(c.dbapi_connection.id)
                        for act, lvl in t["actions"]:
                            if act in ("write", "write_fail"):
                                v = newval()
                                cur = c.cursor()
                                try:
                                    cur.execute("insert into t (v) values (?)", (v,))
                                    # raw DBAPI use: with the driver in autocommit (isolation_level None) the row is durable at once
                                    (mine_auto if c.dbapi_connection._real.isolation_level is None
                                     and not c.dbapi_connection._real.in_transaction else mine).add(v)
                                finally:
                                    cur.close()
                        leave = t["leave"]
                        committed |= mine_auto
                        if leave in ("commit_close", "commit_fail_close", "commit_fail_rollback_close"):
                            c.commit()
                            committed |= mine
                            mine = set()
                            c.close()
                        elif leave in ("rollback_close",):
                            c.rollback()
                            c.close()
                        elif leave in ("drop", "drop_gc", "exc_with"):
                            c = None
                            gc.collect()
                        elif leave == "invalidate":
                            c.invalidate()
                        else:
                            c.close()
                    else:
                        e2 = eng.execution_options(isolation_level=t["opt_iso"]) if t["api"] == "option" and cfg["mode"] == "legacy" else eng
                        c = e2.connect()
                        dbc = c.connection.dbapi_connection
                        state["used"].add(dbc.id)

                        def autocommit_now():
                            return dbc._real.isolation_level is None and cfg["mode"] == "legacy"
                        for act, lvl in t["actions"]:
                            try:
                                if act == "write":
                                    v = newval()
                                    c.execute(text("insert into t (v) values (:v)"), {"v": v})
                                    (mine_auto if autocommit_now() else mine).add(v)
                                elif act == "write_fail":
                                    c.execute(text("insert into t (v) values (:v)"), {"v": "not-an-int"})
                                elif act == "select":
                                    c.execute(text("select count(*) from t")).scalar()
                                elif act == "begin":
                                    c.begin()
                                elif act == "savepoint":
                                    if cfg["mode"] == "begin_event":
                                        c.begin_nested()
                                elif act == "logtoken":
                                    # an execution option that is not a connection characteristic, set in its own call (before or
                                    # after an isolation level change): resetting the characteristics must not depend on call order
                                    c.execution_options(logging_token="t%d" % len(out))
                                elif act == "iso":
                                    if cfg["mode"] == "legacy":
                                        c.execution_options(isolation_level=lvl)
                                elif act == "iso_in_txn":
                                    if cfg["mode"] == "legacy":
                                        c.execute(text("select 1"))
                                        c.execution_options(isolation_level=lvl)
                                out.append(act)
                            except (exc.SQLAlchemyError,) as e:
                                out.append(act + ":" + type(e).__name__)
                                del e
                        committed |= mine_auto
                        leave = t["leave"]
                        if leave == "drop" and cfg["pool"] == "static":
                            leave = "drop_gc"     # StaticPool shares its one connection by contract: an uncollected holder overlaps the next
                        if leave == "commit_close":
                            c.commit()
                            committed |= mine
                            mine = set()
                            c.close()
                        elif leave in ("commit_fail_close", "commit_fail_rollback_close"):
                            # a COMMIT that fails in the driver (before effect); the holder then leaves
                            n_commit = plan.count.get("commit", 0) + 1
                            plan.plan[("commit", n_commit)] = "error"
                            try:
                                c.commit()
                                if c.in_transaction() or True:
                                    pass
                                # no DBAPI commit was emitted (nothing begun): nothing to fail
                                plan.plan.pop(("commit", n_commit), None)
                                committed |= mine
                                mine = set()
                            except exc.DBAPIError:
                                out.append("commit-failed")
                                bump("fault:commit_error_at_leave")
                            if leave == "commit_fail_rollback_close":
                                c.rollback()
                            c.close()
                        elif leave == "rollback_close":
                            c.rollback()
                            c.close()
                        elif leave == "close":
                            c.close()
                        elif leave == "drop":
                            c = None          # refcount only; cycles stay until a later gc
                            dbc = None
                        elif leave == "drop_gc":
                            c = None
                            dbc = None
                            gc.collect()
                            bump("fault:gc_collected_checkout")
                        elif leave == "exc_with":
                            try:
                                with c:
                                    raise KeyError("boom")
                            except KeyError:
                                pass
                        elif leave == "invalidate":
                            c.invalidate()
                            c.close()
                        dbc = None
                        if cfg["reset"] == "commit" and leave in ("close", "drop_gc", "exc_with", "rollback_close") and False:
                            pass
                except exc.TimeoutError:
                    out.append("pool-timeout")      # an earlier tenant's dropped connection is still uncollected
                    gc.collect()
                except (exc.SQLAlchemyError, sqlite3.Error) as e:
                    out.append("raised:" + type(e).__name__)
                    del e
                c = None
                if cfg["pool"] == "static":
                    gc.collect()     # StaticPool shares its single connection: a not-yet-collected holder would overlap the next tenant
                trace.append([ti, t["api"], t["leave"], out])
                if viol:
                    break
            # one last hand-out after everything (and after a gc), so the last tenant's leftovers are probed too
            if not viol:
                gc.collect()
                state["tenant"] = len(case["tenants"])
                plan.enabled = False          # faults have stopped: the engine must work
                try:
                    c = eng.connect()
                    c.close()
                except exc.SQLAlchemyError as e:
                    if oracle_on:
                        V("engine_unusable_after_history", "connect after the history raised %s: %s" % (type(e).__name__, str(e)[:100]))
    finally:
        c = None
        del held[:]
        try:
            eng.dispose()
        except Exception:
            pass
        obs.close()
        gc.collect()
    for k, n, f, cid in plan.fired:
        bump("fault:%s_%s" % (k, f))
    bump("pool_" + cfg["pool"])
    bump("reset_%s" % cfg["reset"])
    bump("handouts", len(probes))
    bump("probe:reused_connection_handouts", state["handouts_reused"])
    points = [list(x) for x in plan.calls]
    return {"viol": viol, "digest": digest_of([cfg, case["tenants"], case["faults"], trace, probes]),
            "nontrivial": state["handouts_reused"] >= 2, "counters": counters,
            "sets": {"abstract_states": [[cfg["pool"], str(cfg["reset"]), len(probes), state["handouts_reused"]]]},
            "trace": trace, "points": points}
