"""C46 — expired and refreshed attributes reflect the database (ormsim)."""
from props import _orm


def _cfg(rng, cfg):
    cfg["expire_on_commit"] = rng.random() < 0.5


_orm.define(globals(), "C46", ("C46",), "refresh",
            "deterministic simulation: seeded ORM session histories in which a second connection changes committed rows behind the session "
            "(between its transactions) and the session then expires, refreshes, commits or runs populate_existing queries; every read of an "
            "expired attribute must return what the session's transaction sees, refreshed / re-populated objects must equal their rows "
            "(joined-inheritance sub-table columns included), attribute-level expiry must leave other pending changes alone; a composite() value "
            "read after expire / refresh of one of its columns, of both, or of the composite's own name equals the row",
            "seeded search with expire_on_commit on and off; ground truth is probed on the session's own connection right after the read.  "
            "Sampled.",
            "external writes happen only while the session holds no transaction (SQLite has one writer); loader options (load_only, "
            "deferred) are not part of the universe",
            weights={"ext_update": 8, "populate_existing": 5, "refresh": 5, "expire": 4, "expire_all": 2, "expire_attr": 4, "read": 8, "commit": 5,
                     "rollback": 2, "set": 4, "requery": 3, "get": 2, "mk": 5, "close": 1, "flush": 3, "m_ops": 3, "m_expire_part": 3},
            cfg_fn=_cfg)
